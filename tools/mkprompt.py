#!/usr/bin/env python3
"""mkprompt.py <property id> <tag> [extra hint]: create a scratch worktree /tmp/wt_<tag> and the sub-agent prompt /tmp/prompt_<tag>.txt
(the prompt contains the property text only, nothing from /verif)."""
import json, subprocess, sys
pid, tag = sys.argv[1], sys.argv[2]
extra = sys.argv[3] if len(sys.argv) > 3 else ""
props = {json.loads(l)["id"]: json.loads(l) for l in open("/verif/properties.jsonl")}
p = props[pid]
wt = f"/tmp/wt_{tag}"
subprocess.run(["git", "-C", "/repo", "worktree", "add", "-q", "--detach", wt, "HEAD"], check=True)
quant = p["quantifier"]["text"]
for ref in ("C01", "C03"):
    if ref in quant and ref != pid:
        quant += f'\n  (where "{ref}" refers to: {props[ref]["quantifier"]["text"]})'
tmpl = f'''You are helping to evaluate a verification tool by producing a realistic *seeded defect* for the open-source Python library odfdo (OpenDocument files; built on lxml).

You have your own scratch git worktree of the library at {wt} (source under {wt}/src/odfdo, tests under {wt}/tests). Work ONLY inside {wt} (and /tmp/out_{tag} for your output). Do NOT touch /repo or /verif, and do not read anything under /verif.

To run Python against your worktree use:  cd {wt} && PYTHONPATH={wt}/src /venv/bin/python ...
To run the existing test-suite against your worktree:  cd {wt} && PYTHONPATH={wt}/src /venv/bin/python -m pytest -q -p no:cacheprovider --timeout=900 -x
(first confirm with `PYTHONPATH={wt}/src /venv/bin/python -c "import odfdo; print(odfdo.__file__)"` that odfdo is imported from your worktree, not /repo.) The full suite takes about 2-3 minutes.

The semantic property under study:

  TITLE: {p["title"]}
  STATEMENT: {p["statement"]}
  QUANTIFIED OVER: {quant}

Task: make a small, realistic change to the library source (the kind of slip a maintainer could make in a refactoring or "optimisation": an off-by-one, a dropped cache reset, a wrong index variable, a condition that is slightly too narrow or too wide, a clone that is skipped, a wrong default, two sites that each look fine alone...) such that
  1. the library still imports and the WHOLE existing test suite still passes (run it, all tests must pass), and
  2. the property above is violated, but only under some *specific* circumstance: a particular multi-step sequence of operations, an unusual-but-legal input, a particular way the data is encoded / cached / nested, a boundary value... It must NOT be something that ordinary simple use would expose at once (otherwise the existing tests would catch it).
Prefer a defect in the mechanism the property is about (not a gross breakage such as raising everywhere). {extra}

Deliver, in /tmp/out_{tag}/ :
  - patch.diff : output of `git -C {wt} diff` (the change only touches files under src/odfdo)
  - demo.py : a small standalone program (plain python, uses only odfdo + stdlib; it must run with PYTHONPATH pointing at a source tree) that exits 0 and prints OK on the ORIGINAL code and exits non-zero (assertion failure showing the wrong behaviour) on the patched code. It must demonstrate a violation of the property as stated, through the public API.
  - notes.md : 5-10 lines: what you changed, why the tests still pass, what exactly is needed for the defect to manifest.
Verify yourself: run demo.py with the patch applied (must fail) and with the patch reverted via `git -C {wt} diff > /tmp/out_{tag}/patch.diff && git -C {wt} apply -R /tmp/out_{tag}/patch.diff`, then re-applied with `git -C {wt} apply /tmp/out_{tag}/patch.diff` (must pass on the reverted tree; NEVER use `git stash`: the stash is shared with other worktrees of this repository), and run the full test suite with the patch applied (must pass). Leave the patch applied in the worktree when you finish. Report briefly what you did and the results of those three runs.
If your first idea makes some existing test fail, pick a different one; try up to a handful of ideas. Produce exactly one final change.
'''
open(f"/tmp/prompt_{tag}.txt", "w").write(tmpl)
print(f"/tmp/prompt_{tag}.txt", wt)
