#!/usr/bin/env python3
"""Regenerate MANIFEST.json from the table below (keeps it schema-valid)."""
import json, subprocess, sys
from pathlib import Path

ROOT = Path(__file__).resolve().parent.parent
BASE = "cd /repo && /venv/bin/python -m pytest -ra -q -p no:cacheprovider --timeout=900 --continue-on-collection-errors"

MC = "exhaustive breadth-first exploration of operation histories on the real code with a lock-step Python reference model (explicit-state model checking, bounded depth)"
ENUM = "exhaustive enumeration of a bounded input/configuration space on the real code against an independent reference (bounded model checking of a stateless function)"

CHECKS = {
    "C01": dict(tech=MC, ref="5/C01", text="Every history of public Row/Table operations up to the stated depth, from every run-length encoding of the seed grids, is executed on the real objects; after each step all reads are compared with an uncompressed list-of-lists model. Bounded, exhaustive inside the bound.",
                note="Trusted: lxml, CPython, the list model (Python slice semantics for repeated arguments). Bounds: see evidence coverage.machines.*.depth_completed."),
    "C02": dict(tech=MC, ref="5/C02", text="Same exploration with cache-populating reads as extra transitions; after each step the live object's answers are compared with a fresh parse of its own XML and with an independent lxml reader, and the position maps / cached wrappers are compared with the XML.",
                note="Trusted: lxml, the independent reader (mc/models/tableread.py)."),
    "C07": dict(tech=MC, ref="5/C07", text="Same exploration; after each step an independent lxml walk checks the structural rules (repeat attributes, child kinds, order, widths, sums); name rules are enumerated exhaustively over short strings.",
                note="Trusted: lxml; the structural rules as written in the property."),
    "C08": dict(tech=ENUM, ref="5/C08", text="Every table state inside the bound (all seed encodings and their one-op successors) x every getter with every coordinate form (in, edge, beyond; tuple/string) x every returned object x every mutation of it: coordinates stamped, repeat cleared on expanding reads, beyond-the-edge reads empty and non-growing, table/maps/cached wrappers and sibling objects unchanged by the mutation, push-back equals the grid model.",
                note="Trusted: lxml; the set of getters documented as returning copies (listed in evidence assumptions)."),
    "C10": dict(tech=MC, ref="5/C10", text="Twin exploration: for every object state (tables, rows, cells inside the table bound; documents/containers/parts of the package machine) the clone is compared at birth and every bounded interleaving of operations on original and clone is executed; each twin must equal the same object run alone, the untouched twin never changes, no map list is shared.",
                note="Trusted: lxml; observation = serialisation + position maps + cached wrappers (tables), part bytes and parsed trees (documents)."),
    "C19": dict(tech=ENUM, ref="5/C19", text="Column letter/number bijection for every n up to the bound; for every seed table every cell and area in every coordinate form (tuple, list, string, lower case, negative, partial) through every coordinate-taking method against the grid model; named-range address round trip and rename for every accepted table name up to the length bound.",
                note="Trusted: lxml; the documented coordinate conventions. 'Random large' numbers are not sampled."),
    "C17": dict(tech=MC, ref="5/C17", text="BFS over compositions of transpose / rstrip / optimize_width / set_span / del_span / csv round trip from every run-length encoding of the seed grid plus ragged, styled, spanned and repeated-last-row seeds; the algebraic law of each operation (exact transposed matrix, involution, idempotence, values keep coordinates, span covers exactly the area, inverse pair, csv values) is checked after every step on an independent lxml reading.",
                note="Trusted: lxml; the reading of each law stated in evidence assumptions (transpose compared after trimming trailing empties; csv export without any delimiter is outside import_from_csv's documented autodetection)."),
    "C05": dict(tech=ENUM, ref="5/C05", text="Every string over an alphabet with space, tab, line feed, XML-special and non-ASCII characters up to the length bound, for Paragraph, Header and Span, built by the constructor and by every split into successive append() calls of bounded piece size: inner_text, re-parsed text and an independent ODF 6.1.2 white-space interpreter must all give the string back.",
                note="Trusted: lxml; the strict reading of ODF 1.2 part 1 section 6.1.2 implemented in mc/models/odfws.py. 'Randomly beyond the bound' is not done."),
    "C09": dict(tech=MC, ref="5/C09", text="Paragraph family (every sequence of <=3 inline items in white-space normal form) x every insertion form (regex / offset / position / content; span, link, bookmark, reference mark, note, annotation) x every removal afterwards; depth 2 (two successive insertions of mixed kinds) on a sub-family. Oracles are independent lxml walks on the tree before the call: projection unchanged, wrapped substrings, offsets of marks, no partial edit.",
                note="Trusted: lxml; offsets are counted in the readable text as the statement says (divergences of odfdo's own coordinate system are the open finding F21)."),
    "C16": dict(tech=ENUM, ref="5/C16", text="Paragraph family x pattern family x replacement strings x formatted in {False, True}: count, per-text-node substitution, markup in place, formatted result in white-space normal form, all against an independent per-node re.subn over the lxml tree; search / search_first / search_all / match for every pattern and text_at for every (start, end).",
                note="Trusted: lxml, Python re. Patterns matching the empty string excluded as in the statement. With links, positions index odfdo's own inner_text (Link.__str__ shows '[text](url)')."),
    "C20": dict(tech=MC, ref="5/C20", text="Every heading level sequence up to the length bound (outline level, TOC position, heading text kinds and edit history rotated over the sequences; full product on sequences of length <= 2), histories fill / fill,fill / fill,edit,fill: entries == selected headings in order, entry == number + space + heading projection and nothing else, counter model for the numbers, title kept, second fill is a no-op, the odfdo-headers script prints the same numbers.",
                note="Trusted: lxml; no numbering convention assumed for skipped levels (arity and monotonicity only)."),
    "C03": dict(tech=MC, ref="5/C03", text="BFS over edit histories (parse a part, body/meta/style edits, set_part, del_part, add_file, clone, save to zip path / BytesIO / folder, flat XML, reopen) from the 4 templates, every sample and BytesIO-/folder-opened copies; at every save the package read back with plain zipfile/lxml equals a dict-of-parts model maintained with plain lxml: XML parts as C14N infosets, other parts byte-identical, no name lost or invented; the saved target reopens to the same content.",
                note="Trusted: zipfile, lxml. meta:generator excluded; manifest.rdf reconciliation judged by C04; pretty=False here (pretty is C11)."),
    "C04": dict(tech=MC, ref="5/C04", text="BFS over manifest-relevant histories (add_file by path / file-like / repeated content, del_part, image frame, merge_styles_from, clone, save, reopen) over templates and samples; every saved zip: mimetype first, stored, a valid ODF type; no duplicate entry names; an independent manifest parse lists each file exactly once, nothing absent, root entry carries the mimetype.",
                note="Trusted: zipfile, lxml. Directory entries of the manifest (e.g. 'Pictures/') are not judged."),
    "C11": dict(tech=ENUM, ref="5/C11", text="Every seed document (a generated document holding every adjacency of <=2 inline kinds (and <=3 over a sub-alphabet) as paragraphs and headings, also inside list items, sections and table cells; the 4 templates; every sample) x every configuration {zip pretty, folder plain/pretty, flat XML plain/pretty} compared with the plain zip save of the same state (per-paragraph ODF-collapsed text, element skeleton, attributes); in-memory parts before/after each save; 5 save sequences of length <= 3.",
                note="Trusted: zipfile, lxml, the white-space reading of mc/models/odfws.py. Flat XML compared on paragraph texts only."),
    "C15": dict(tech=ENUM, ref="5/C15", text="Every read-only entry point found by introspection (public properties; methods named get_*/is_*/search*/match/text_at/*_text/to_*/as_*/show_*/iter_*/traverse*/serialize/__str__, replace(pattern) without replacement) of Document, body, meta, manifest, styles, content and of one instance of every element class present, on every bounded-size document (generated documents with run-length encoded tables / notes / TOC / lists / frames, the adjacency document, templates, samples), called twice: every parsed part and container part digested before/after each call, second answer equal to the first; exporters in A,B,A order across documents.",
                note="Trusted: lxml. Lazily loading a part is not a change. Create-on-demand getters (get_variable_decls, get_user_field_decls) excluded by contract."),
    "C18": dict(tech=ENUM, ref="5/C18", text="Date: every day of the listed years (all years 1..9999 in thorough); DateTime: year x day x time x microsecond x zone lattice; Duration: every whole second of [-2 d, +2 d] (10 d thorough) plus a magnitude lattice; colours: every (r,g,b) of listed red ranges (all 2^24 thorough), lattice, CSS names; Boolean and Unit lattices; decode(encode(v)) == v and the encoding matches the ODF lexical regex; rejection: every single-character edit of valid encodings must raise or return what an independent lenient ISO-8601 reading assigns.",
                note="Trusted: CPython datetime. Date.decode returning a datetime for a date is documented and accepted. 'Randomly inside' is not done."),
    "C06": dict(tech=ENUM, ref="5/C06", text="Value lattice (bool, int incl. huge/negative, float incl. exponents, Decimal incl. trailing zeros, every string of length <= 3 over an alphabet with white space / XML-special / non-ASCII plus type look-alikes such as 'true', dates and datetimes over years 1..9999 x microseconds x zones, whole-second durations incl. negative and multi-day, None) x every carrier (Cell, Cell.value, Row/Table set_value, VarSet, UserFieldDecl, UserDefined, user-defined metadata) x {direct, re-parsed, saved and reopened}; every ordered pair of type representatives written on the same carrier; attributes checked against the ODF lexical forms.",
                note="Trusted: lxml. Documented type map accepted (numbers come back as int/Decimal, a date as datetime at midnight). inf/nan and fractional durations are outside the domain."),
    "C14": dict(tech=ENUM, ref="5/C14", text="Every identifier up to the length bound over an alphabet rich in XPath- and XML-significant characters, accepted by the respective setter, stored together with decoys (suffix/prefix/doubled/one character changed/quote swapped) and looked up through every name-taking entry point of its kind (table, style, bookmark and its start/end, reference marks single and range, frame, draw page, variable decl/set, user field, note id, manifest path, link, user-defined, named range): no exception, the object found carries exactly that identifier.",
                note="Trusted: lxml. Sections have no lookup by name in the API. Setters that strip the name (table, named range) are queried with the stripped identifier."),
    "C13": dict(tech=MC, ref="5/C13", text="Every insert_style(family x name in {None, A, B, odfdo_auto_7} x {common, automatic, default}) inside its documented domain, alone (with save + reload) on 5 documents, every ordered pair (representative first op, any second op), and merge_styles_from between every pair of documents; an independent lxml walk over the four style containers of both parts checks the container required by family/kind, uniqueness of (tag, family, name), the returned name, that get_style finds the very element inserted, non-colliding generated names, union / other-wins / source-unchanged for merges.",
                note="Trusted: lxml. Domain as documented (a name or automatic or default; default for style:style families; master pages, page layouts, font faces named). A caller-made clash of the same family+name between an automatic and a common style is outside the domain."),
    "C12": dict(tech=ENUM, ref="5/C12", text="The class registry is read at run time; for every class, every constructor argument vector with at most two parameters off their defaults over type/name-directed domains (deviation bound 2): serialisation well-formed and re-parsed to the same class with identical C14N, every same-named property equal before/after re-parse, every passed argument exposed by its same-named property (reviewed, reasoned exceptions in c12_exceptions.json; anything else is reported, so a new class is covered without editing the check); dispatch: one instance of every registered tag nested three deep through children / parent / get_elements / xpath / clone / get_element / from_tag.",
                note="Trusted: lxml. Constructor calls raising ValueError/TypeError/KeyError/AttributeError count as invalid argument combinations. Comparison under str/bool/colour/duration normalisation."),
}

NOT_YET = {}

def main():
    props = [json.loads(l) for l in (ROOT / "properties.jsonl").read_text().splitlines() if l.strip()]
    checks, na = [], []
    for p in props:
        pid = p["id"]
        if pid in CHECKS:
            c = CHECKS[pid]
            checks.append({
                "property_id": pid,
                "quick_cmd": f"./run {pid} quick",
                "thorough_cmd": f"./run {pid} thorough",
                "evidence_file": f"/verif/evidence/{pid}.json",
                "replay_cmd_template": "./run replay {path}",
                "engine": "mc",
                "level_claimed": {"category": c.get("cat", "model_checking"), "text": c["text"], "design_ref": c["ref"]},
                "level_note": c["note"],
                "technique": c["tech"],
            })
        else:
            na.append({"property_id": pid, "reason": NOT_YET.get(pid, "check not built yet in this round (planned: bounded exhaustive exploration, see DESIGN.md section 5)")})
    hooks_commits = [l.strip() for l in (ROOT / "hooks_commits.txt").read_text().split()] if (ROOT / "hooks_commits.txt").exists() else []
    m = {
        "version": 1,
        "setup_cmd": "./run selftest",
        "hooks": {
            "guard": "ODFDO_VERIF",
            "enable": "no instrumentation is needed: checks import odfdo from /repo/src (PYTHONPATH set by ./run) and read private state from outside; ./run exports ODFDO_VERIF=1 for uniformity",
            "baseline_off_cmd": BASE,
            "source_commits": hooks_commits,
            "add_only": True,
        },
        "engines": [{"name": "mc", "path": "/verif/mc", "serves_properties": sorted(CHECKS), "kind_free_text": "hand-written explicit-state explorer (Python, multiprocessing) driving the real odfdo code with lock-step reference models"}],
        "checks": checks,
        "not_applicable": na,
        "notes": "See DESIGN.md. known_findings.json lists genuine defects (fixed and open).",
    }
    (ROOT / "MANIFEST.json").write_text(json.dumps(m, indent=1) + "\n")
    r = subprocess.run(["/opt/veriftools/pyvenv/bin/python", "-c", "import json,jsonschema;jsonschema.validate(json.load(open('%s')),json.load(open('/root/.vp/MANIFEST.schema.json')));print('manifest valid')" % (ROOT / "MANIFEST.json")])
    return r.returncode

if __name__ == "__main__":
    sys.exit(main())
