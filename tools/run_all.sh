#!/bin/bash
# run_all.sh <tier>: every registered check once; one summary line each (states/transitions from the evidence file)
tier=${1:-quick}
cd /verif
for c in $(jq -r '.checks[].property_id' MANIFEST.json); do
  s=$(date +%s)
  out=$(./run $c $tier 2>&1); rc=$?
  ev=evidence/$c.json
  echo "$c $tier seed=${VERIF_SEED:-0} exit=$rc $(( $(date +%s)-s ))s violations=$(echo "$out" | grep -c '^VIOLATION') known=$(echo "$out" | grep -c '^KNOWN-FINDING') states=$(jq .coverage.states $ev) transitions=$(jq .coverage.transitions $ev) nontrivial=$(jq .coverage.distinct_nontrivial $ev)"
done
