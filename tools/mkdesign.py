#!/usr/bin/env python3
"""Refresh the generated tables of DESIGN.md (findings, seeded changes) from
known_findings.json and seeded/*/meta.json."""
import glob, json, re
from pathlib import Path

ROOT = Path(__file__).resolve().parent.parent


def esc(s):
    return str(s).replace("|", "\\|").replace("\n", " ")


def findings():
    d = json.loads((ROOT / "known_findings.json").read_text())
    rows = ["| id | properties | status | what failed |", "|---|---|---|---|"]
    for e in d["findings"]:
        w = e["what"]
        m = re.match(r"fixed: property=\S+ (?:[0-9a-f]{7,12} )?(.*)", w)
        if m:
            w = m.group(1)
        st = e["status"] + (" " + e.get("commit", "") if e["status"] == "fixed" else "")
        rows.append(f"| {e['id']} | {', '.join(e.get('properties', []))} | {st} | {esc(w)} |")
    return "\n".join(rows)


def seeds():
    rows = ["| seeded change | property | what was changed | what it needs to manifest | caught by | check strengthened after a first miss |", "|---|---|---|---|---|---|"]
    for f in sorted(glob.glob(str(ROOT / "seeded/*/meta.json"))):
        m = json.loads(Path(f).read_text())
        sid = Path(f).parent.name
        rows.append(f"| {sid} | {m['property']} | {esc(m.get('change', ''))} | {esc(m.get('needs', ''))} | {esc(m.get('detected', ''))} | {esc(m.get('strengthened', 'no'))} |")
    return "\n".join(rows)


def main():
    p = ROOT / "DESIGN.md"
    s = p.read_text()
    for tag, body in (("FINDINGS-TABLE", findings()), ("SEEDS-TABLE", seeds())):
        s = re.sub(rf"<!-- {tag} -->.*?<!-- /{tag} -->", lambda _m: f"<!-- {tag} -->\n{body}\n<!-- /{tag} -->", s, flags=re.S)
    p.write_text(s)
    print("DESIGN.md tables refreshed")


if __name__ == "__main__":
    main()
