#!/bin/bash
# try_seed.sh <seed dir> <tier> <prop>...: apply the patch to /repo, run the checks, always revert
sd=$(realpath $1); tier=$2; shift 2
cd /verif
git -C /repo diff --quiet || { echo "/repo is dirty"; exit 2; }
git -C /repo apply $sd/patch.diff || exit 2
trap 'git -C /repo checkout -- .' EXIT
for p in "$@"; do
  s=$(date +%s)
  out=$(./run $p $tier 2>&1); rc=$?
  echo "== $p $tier exit=$rc ($(( $(date +%s)-s ))s) $(echo "$out" | grep -c '^VIOLATION') violation lines"
  echo "$out" | grep -E "^VIOLATION|signature:" | head -${SHOW:-6}
done
