#!/bin/bash
# regress_seeds.sh: every kept seeded change against the quick check of its own property (apply, run, revert);
# one line per seed in seeded/REGRESSION.txt.  /repo must be clean and not used by anything else meanwhile.
cd /verif
out=seeded/REGRESSION.txt; : > $out.tmp
for d in seeded/C*/; do
  id=$(basename $d); prop=${id%%-*}
  git -C /repo diff --quiet || { echo "/repo is dirty"; exit 2; }
  git -C /repo apply /verif/$d/patch.diff 2>/dev/null || { echo "$id patch-does-not-apply" >> $out.tmp; continue; }
  s=$(date +%s); o=$(./run $prop quick 2>&1); rc=$?
  git -C /repo checkout -- .
  echo "$id $prop quick exit=$rc violations=$(echo "$o" | grep -c '^VIOLATION') $(( $(date +%s)-s ))s" >> $out.tmp
done
mv $out.tmp $out
