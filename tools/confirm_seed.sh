#!/bin/bash
# confirm_seed.sh <worktree> <seed dir>: suite passes with the patch, demo fails with it and passes without it
wt=$1; sd=$2
cd $wt || exit 2
git diff --quiet && { echo "no patch applied in $wt"; exit 2; }
PYTHONPATH=$wt/src /venv/bin/python $sd/demo.py >/dev/null 2>&1; with=$?
git stash -q; PYTHONPATH=$wt/src /venv/bin/python $sd/demo.py >/dev/null 2>&1; without=$?; git stash pop -q
PYTHONPATH=$wt/src /venv/bin/python -m pytest -q -p no:cacheprovider --timeout=900 -x 2>&1 | tail -1 > /tmp/suite_$$.txt
echo "demo_with_patch_exit=$with demo_without_patch_exit=$without suite: $(cat /tmp/suite_$$.txt)"; rm -f /tmp/suite_$$.txt
