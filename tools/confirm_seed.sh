#!/bin/bash
# confirm_seed.sh <worktree> <seed dir>: suite passes with the patch, demo fails with it and passes without it.
# The worktree must be clean; the patch is taken from the seed directory (no git stash: the stash stack is
# shared between the worktrees of one repository, parallel confirmations would swap patches).
wt=$1; sd=$(realpath $2)
cd $wt || exit 2
git diff --quiet || { echo "$wt is not clean"; exit 2; }
PYTHONPATH=$wt/src /venv/bin/python $sd/demo.py >/dev/null 2>&1; without=$?
git apply $sd/patch.diff || { echo "patch does not apply"; exit 2; }
PYTHONPATH=$wt/src /venv/bin/python $sd/demo.py >/dev/null 2>&1; with=$?
PYTHONPATH=$wt/src /venv/bin/python -m pytest -q -p no:cacheprovider --timeout=900 2>&1 | tail -1 > /tmp/suite_$$.txt
git checkout -- .
echo "demo_with_patch_exit=$with demo_without_patch_exit=$without suite: $(cat /tmp/suite_$$.txt)"; rm -f /tmp/suite_$$.txt
