"""Replay of an exploration crash: run the recorded check command again."""

from __future__ import annotations

import subprocess
import sys
from pathlib import Path


def replay(rp):
    cmd = rp.get("command", "").split()
    if len(cmd) != 3:
        print("no command recorded")
        return 2
    root = Path(__file__).resolve().parent.parent
    r = subprocess.run([str(root / "run"), cmd[1], cmd[2]], cwd=root)
    print(f"{rp['command']} -> exit {r.returncode}")
    return 1 if r.returncode else 0
