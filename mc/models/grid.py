"""Reference models: an uncompressed row (list) and an uncompressed ragged grid.

Deliberately boring; never imports odfdo.  Cell content is any hashable value,
``None`` being the empty cell.
"""

from __future__ import annotations


def norm_index(i: int, length: int) -> int:
    """odfdo's documented negative-index rule: count from the current end."""
    if i < 0:
        if length == 0:
            return 0
        while i < 0:
            i += length
    return i


class RowModel:
    def __init__(self, cells=()):
        self.cells = list(cells)

    def copy(self):
        return RowModel(self.cells)

    @property
    def width(self):
        return len(self.cells)

    def _pad(self, x):
        if x > len(self.cells):
            self.cells.extend([None] * (x - len(self.cells)))

    def set_cell(self, x, v, k=1):
        x = norm_index(x, self.width)
        self._pad(x)
        self.cells[x : x + k] = [v] * k

    def insert_cell(self, x, v, k=1):
        x = norm_index(x, self.width)
        self._pad(x)
        self.cells[x:x] = [v] * k

    def append_cell(self, v, k=1):
        self.cells.extend([v] * k)

    def delete_cell(self, x):
        x = norm_index(x, self.width)
        if x < len(self.cells):
            del self.cells[x]

    def set_cells(self, items, start=0):
        x = norm_index(start, self.width)
        for v, k in items:
            self.set_cell(x, v, k)
            x += k

    def extend_cells(self, items):
        for v, k in items:
            self.append_cell(v, k)

    def clear(self):
        self.cells = []

    def rstrip(self):
        while self.cells and self.cells[-1] is None:
            self.cells.pop()

    def set_run_length(self, start, old_len, k):
        """The XML run [start, start+old_len) gets length k (Cell.repeated = k)."""
        v = self.cells[start]
        self.cells[start : start + old_len] = [v] * k

    # reads
    def values(self, a=None, b=None):
        if a is None and b is None:
            return list(self.cells)
        a = 0 if a is None else max(0, a)
        if b is None:
            return self.cells[a:]
        return self.cells[a : b + 1]

    def value(self, x):
        return self.cells[x] if 0 <= x < len(self.cells) else None

    def canon(self):
        return tuple(self.cells)


class GridModel:
    """rows: list of lists (ragged); ncols: declared column count."""

    def __init__(self, rows=(), ncols=0):
        self.rows = [list(r) for r in rows]
        self.ncols = ncols

    def copy(self):
        return GridModel(self.rows, self.ncols)

    @property
    def height(self):
        return len(self.rows)

    @property
    def width(self):
        return self.ncols

    def canon(self):
        return (tuple(tuple(r) for r in self.rows), self.ncols)

    # -- helpers
    def ny(self, y):
        return norm_index(y, self.height)

    def nx(self, x):
        return norm_index(x, self.width)

    def _after_row_edit(self, length):
        if length > self.ncols:
            self.ncols = length

    def _init_columns(self, length):
        """append_row on a table without column declarations declares them
        (documented: 'columns are automatically created when the first row is
        inserted in an empty table'); an empty row still declares one column."""
        if self.ncols == 0:
            self.ncols = max(1, length)

    def _pad_rows(self, y):
        """Rows appended so that position y exists as the next append position."""
        if y > len(self.rows):
            self._init_columns(0)
            self.rows.extend([] for _ in range(y - len(self.rows)))

    def _row_for_edit(self, y):
        """Copy of row y, or a new empty row when y is beyond the table."""
        return list(self.rows[y]) if y < len(self.rows) else []

    # -- row operations
    def set_row(self, y, cells, k=1):
        y = self.ny(y)
        cells = list(cells)
        if y >= len(self.rows):
            self._pad_rows(y)
            self._init_columns(len(cells))
            self.rows.extend(list(cells) for _ in range(k))
        else:
            self.rows[y : y + k] = [list(cells) for _ in range(k)]
        self._after_row_edit(len(cells))

    def insert_row(self, y, cells, k=1):
        y = self.ny(y)
        cells = list(cells)
        if y >= len(self.rows):
            self._pad_rows(y)
            self._init_columns(len(cells))
            self.rows.extend(list(cells) for _ in range(k))
        else:
            self.rows[y:y] = [list(cells) for _ in range(k)]
        self._after_row_edit(len(cells))

    def append_row(self, cells, k=1):
        cells = list(cells)
        self._init_columns(len(cells))
        self.rows.extend(list(cells) for _ in range(k))
        self._after_row_edit(len(cells))

    def delete_row(self, y):
        y = self.ny(y)
        if y < len(self.rows):
            del self.rows[y]

    def extend_rows(self, rows):
        for cells, k in rows:
            self.rows.extend(list(cells) for _ in range(k))
        self.ncols = max([self.ncols] + [len(r) for r in self.rows])

    # -- cell operations
    def set_cell(self, x, y, v, k=1):
        x, y = self.nx(x), self.ny(y)
        r = RowModel(self._row_for_edit(y))
        r.set_cell(x, v, k)
        self.set_row(y, r.cells)

    def insert_cell(self, x, y, v, k=1):
        x, y = self.nx(x), self.ny(y)
        r = RowModel(self._row_for_edit(y))
        r.insert_cell(x, v, k)
        self.set_row(y, r.cells)

    def append_cell(self, y, v, k=1):
        y = self.ny(y)
        r = RowModel(self._row_for_edit(y))
        r.append_cell(v, k)
        self.set_row(y, r.cells)

    def delete_cell(self, x, y):
        x, y = self.nx(x), self.ny(y)
        if y < len(self.rows) and x < len(self.rows[y]):
            del self.rows[y][x]

    def set_block(self, x, y, block):
        """Table.set_values / set_cells: block = list of rows, each a list of (v, k);
        empty sub-lists are skipped (documented loop: 'if not row_values: continue')."""
        x, y = self.nx(x), self.ny(y)
        for i, items in enumerate(block):
            if not items:
                continue
            yy = y + i
            r = RowModel(self._row_for_edit(yy))
            r.set_cells(items, x)
            self.set_row(yy, r.cells)

    # -- column operations
    def insert_column(self, x, k=1):
        x = self.nx(x)
        if x > self.ncols:
            self.ncols = x
        self.ncols += k
        for r in self.rows:
            if len(r) > x:
                r[x:x] = [None] * k

    def append_column(self, k=1):
        self.ncols += k

    def delete_column(self, x):
        x = self.nx(x)
        if x >= self.ncols:
            return
        self.ncols -= 1
        for r in self.rows:
            if len(r) > x:
                del r[x]

    def set_column(self, x, k=1):
        x = self.nx(x)
        self.ncols = max(self.ncols, x + k)

    def set_column_cells(self, x, items):
        """items: one (v, k) per row; every row gets its cell at x."""
        for y, (v, k) in enumerate(items):
            r = RowModel(self.rows[y])
            r.set_cell(x, v, k)
            self.rows[y] = r.cells
            self._after_row_edit(len(r.cells))

    def clear(self):
        self.rows = []
        self.ncols = 0

    def rstrip(self):
        """Table.rstrip(): empty rows below and empty cells at the right disappear,
        the columns are trimmed to the widest remaining row."""
        while self.rows and all(c is None for c in self.rows[-1]):
            self.rows.pop()
        for r in self.rows:
            while r and r[-1] is None:
                r.pop()
        width = max([len(r) for r in self.rows], default=0)
        if self.ncols > width:
            self.ncols = width

    def set_row_run_length(self, start, old_len, k):
        cells = self.rows[start]
        self.rows[start : start + old_len] = [list(cells) for _ in range(k)]

    def set_cell_run_length(self, y, start, old_len, k):
        r = RowModel(self.rows[y])
        r.set_run_length(start, old_len, k)
        self.rows[y] = r.cells

    # -- reads
    def matrix(self):
        return [r + [None] * (self.ncols - len(r)) for r in self.rows]

    def value(self, x, y):
        if 0 <= y < len(self.rows) and 0 <= x < len(self.rows[y]):
            return self.rows[y][x]
        return None

    def row_values(self, y):
        r = self.rows[y] if 0 <= y < len(self.rows) else []
        return r + [None] * (self.ncols - len(r))

    def column_values(self, x):
        return [self.value(x, y) for y in range(self.height)]

    def area(self, x, y, z, t):
        """Inclusive area, clipped to the table like Table.get_values(coord)."""
        out = []
        for yy in range(max(0, y), min(t, self.height - 1) + 1):
            r = self.rows[yy]
            vals = r[x : z + 1]
            width = min(z + 1, self.ncols) - x
            vals = vals + [None] * (width - len(vals))
            out.append(vals)
        return out
