"""Reference models: an uncompressed row (list) and an uncompressed ragged grid.

Deliberately boring; never imports odfdo.  Cell content is any hashable value,
``None`` being the empty cell.
"""

from __future__ import annotations


def norm_index(i: int, length: int) -> int:
    """odfdo's documented negative-index rule: count from the current end."""
    if i < 0:
        if length == 0:
            return 0
        while i < 0:
            i += length
    return i


class RowModel:
    def __init__(self, cells=()):
        self.cells = list(cells)

    def copy(self):
        return RowModel(self.cells)

    @property
    def width(self):
        return len(self.cells)

    def _pad(self, x):
        if x > len(self.cells):
            self.cells.extend([None] * (x - len(self.cells)))

    def set_cell(self, x, v, k=1):
        x = norm_index(x, self.width)
        self._pad(x)
        self.cells[x : x + k] = [v] * k

    def insert_cell(self, x, v, k=1):
        x = norm_index(x, self.width)
        self._pad(x)
        self.cells[x:x] = [v] * k

    def append_cell(self, v, k=1):
        self.cells.extend([v] * k)

    def delete_cell(self, x):
        x = norm_index(x, self.width)
        if x < len(self.cells):
            del self.cells[x]

    def set_cells(self, items, start=0):
        x = norm_index(start, self.width)
        for v, k in items:
            self.set_cell(x, v, k)
            x += k

    def extend_cells(self, items):
        for v, k in items:
            self.append_cell(v, k)

    def clear(self):
        self.cells = []

    def rstrip(self):
        while self.cells and self.cells[-1] is None:
            self.cells.pop()

    def set_run_length(self, start, old_len, k):
        """The XML run [start, start+old_len) gets length k (Cell.repeated = k)."""
        v = self.cells[start]
        self.cells[start : start + old_len] = [v] * k

    # reads
    def values(self, a=None, b=None):
        if a is None and b is None:
            return list(self.cells)
        a = 0 if a is None else max(0, a)
        if b is None:
            return self.cells[a:]
        return self.cells[a : b + 1]

    def value(self, x):
        return self.cells[x] if 0 <= x < len(self.cells) else None

    def canon(self):
        return tuple(self.cells)


class GridModel:
    """rows: list of lists (ragged); ncols: declared column count."""

    def __init__(self, rows=(), ncols=0):
        self.rows = [list(r) for r in rows]
        self.ncols = ncols

    def copy(self):
        return GridModel(self.rows, self.ncols)

    @property
    def height(self):
        return len(self.rows)

    @property
    def width(self):
        return self.ncols

    def canon(self):
        return (tuple(tuple(r) for r in self.rows), self.ncols)

    # -- helpers
    def _grow_cols(self, row):
        if len(row) > self.ncols:
            self.ncols = len(row)

    def _ensure_row(self, y):
        """Make row y exist (set beyond the end pads with empty rows)."""
        while len(self.rows) <= y:
            self.rows.append([])
            if self.ncols == 0 and False:
                pass

    def ny(self, y):
        return norm_index(y, self.height)

    def nx(self, x):
        return norm_index(x, self.width)

    # -- reads
    def matrix(self):
        return [r + [None] * (self.ncols - len(r)) for r in self.rows]

    def value(self, x, y):
        if 0 <= y < len(self.rows) and 0 <= x < len(self.rows[y]):
            return self.rows[y][x]
        return None

    def row_values(self, y):
        r = self.rows[y] if 0 <= y < len(self.rows) else []
        return r + [None] * (self.ncols - len(r))

    def column_values(self, x):
        return [self.value(x, y) for y in range(self.height)]

    def area(self, x, y, z, t):
        """Inclusive area, clipped to the table like Table.get_values(coord)."""
        out = []
        for yy in range(max(0, y), min(t, self.height - 1) + 1):
            r = self.rows[yy]
            vals = r[x : z + 1]
            width = min(z + 1, self.ncols) - x
            vals = vals + [None] * (width - len(vals))
            out.append(vals)
        return out
