"""Independent ODF white-space interpreter / text projection of a paragraph (lxml only).

ODF 1.2 part 1, 6.1.2: inside a paragraph, TAB, CR, LF and SPACE in character
data are normalised to SPACE and a white-space character is ignored when the
preceding character is a white-space character (also across element borders);
white space at the very start of the paragraph is ignored the same way, and we
additionally drop a trailing collapsed space (the strict reading: no consumer can
be relied upon to keep it).  text:s stands for c spaces, text:tab for TAB,
text:line-break for LF.  Note and annotation bodies are not paragraph text.
"""

from __future__ import annotations

TEXT = "urn:oasis:names:tc:opendocument:xmlns:text:1.0"
OFFICE = "urn:oasis:names:tc:opendocument:xmlns:office:1.0"
S = "{%s}s" % TEXT
TAB = "{%s}tab" % TEXT
LB = "{%s}line-break" % TEXT
SKIP = {"{%s}note" % TEXT, "{%s}annotation" % OFFICE, "{%s}annotation-end" % OFFICE}
WS = " \t\r\n"


def _tokens(elem, skip=SKIP):
    """Yield ('chars', str) for character data and ('elem', str) for white-space elements."""
    if elem.text:
        yield ("chars", elem.text)
    for ch in elem:
        if not isinstance(ch.tag, str):
            pass
        elif ch.tag == S:
            try:
                n = int(ch.get("{%s}c" % TEXT, "1"))
            except ValueError:
                n = 1
            yield ("elem", " " * n)
        elif ch.tag == TAB:
            yield ("elem", "\t")
        elif ch.tag == LB:
            yield ("elem", "\n")
        elif ch.tag in skip:
            pass
        else:
            yield from _tokens(ch, skip)
        if ch.tail:
            yield ("chars", ch.tail)


def raw_text(elem, skip=SKIP):
    """Projection without collapsing (what a naive reader concatenates)."""
    return "".join(t for _, t in _tokens(elem, skip))


def collapsed_text(elem, skip=SKIP):
    """Projection as a conforming consumer reads it."""
    out = []
    prev_ws = True  # start of paragraph: leading white space is ignored
    pending_literal_space = False
    for kind, t in _tokens(elem, skip):
        if kind == "elem":
            out.append(t)
            prev_ws = False
            continue
        for c in t:
            if c in WS:
                if not prev_ws:
                    out.append(" ")
                    prev_ws = True
            else:
                out.append(c)
                prev_ws = False
    s = "".join(out)
    # trailing collapsed literal space: find whether the last emitted char came from character data
    if s.endswith(" ") and prev_ws:
        s = s[:-1]
    return s


def is_normal_form(elem, skip=SKIP):
    return raw_text(elem, skip) == collapsed_text(elem, skip)
