"""Independent reader of ODF table XML (plain lxml, shares no code with odfdo).

Works on an lxml element or on an XML string of a table:table / table:table-row.
"""

from __future__ import annotations

from decimal import Decimal

from lxml import etree

NS = {
    "table": "urn:oasis:names:tc:opendocument:xmlns:table:1.0",
    "office": "urn:oasis:names:tc:opendocument:xmlns:office:1.0",
    "text": "urn:oasis:names:tc:opendocument:xmlns:text:1.0",
}
T = "{%s}" % NS["table"]
O = "{%s}" % NS["office"]
TX = "{%s}" % NS["text"]

ROW = T + "table-row"
CELL = T + "table-cell"
COVERED = T + "covered-table-cell"
COLUMN = T + "table-column"
ROW_WRAPPERS = {T + "table-rows", T + "table-header-rows"}
COL_WRAPPERS = {T + "table-columns", T + "table-header-columns"}
REP_R = T + "number-rows-repeated"
REP_C = T + "number-columns-repeated"

_WRAP = (
    '<r xmlns:table="%(table)s" xmlns:office="%(office)s" xmlns:text="%(text)s" '
    'xmlns:style="urn:oasis:names:tc:opendocument:xmlns:style:1.0" '
    'xmlns:fo="urn:oasis:names:tc:opendocument:xmlns:xsl-fo-compatible:1.0" '
    'xmlns:draw="urn:oasis:names:tc:opendocument:xmlns:drawing:1.0" '
    'xmlns:xlink="http://www.w3.org/1999/xlink" '
    'xmlns:svg="urn:oasis:names:tc:opendocument:xmlns:svg-compatible:1.0" '
    'xmlns:calcext="urn:org:documentfoundation:names:experimental:calc:xmlns:calcext:1.0" '
    'xmlns:number="urn:oasis:names:tc:opendocument:xmlns:datastyle:1.0" '
    'xmlns:of="urn:oasis:names:tc:opendocument:xmlns:of:1.2" '
    'xmlns:dc="http://purl.org/dc/elements/1.1/" '
    'xmlns:meta="urn:oasis:names:tc:opendocument:xmlns:meta:1.0" '
    'xmlns:loext="urn:org:documentfoundation:names:experimental:office:xmlns:loext:1.0" '
    'xmlns:form="urn:oasis:names:tc:opendocument:xmlns:form:1.0" '
    'xmlns:presentation="urn:oasis:names:tc:opendocument:xmlns:presentation:1.0" '
    'xmlns:chart="urn:oasis:names:tc:opendocument:xmlns:chart:1.0" '
    'xmlns:script="urn:oasis:names:tc:opendocument:xmlns:script:1.0" '
    'xmlns:math="http://www.w3.org/1998/Math/MathML" '
    'xmlns:dr3d="urn:oasis:names:tc:opendocument:xmlns:dr3d:1.0" '
    'xmlns:xforms="http://www.w3.org/2002/xforms" '
    'xmlns:config="urn:oasis:names:tc:opendocument:xmlns:config:1.0" '
    'xmlns:anim="urn:oasis:names:tc:opendocument:xmlns:animation:1.0" '
    'xmlns:smil="urn:oasis:names:tc:opendocument:xmlns:smil-compatible:1.0" '
    'xmlns:manifest="urn:oasis:names:tc:opendocument:xmlns:manifest:1.0" '
    'xmlns:xsd="http://www.w3.org/2001/XMLSchema" '
    'xmlns:xsi="http://www.w3.org/2001/XMLSchema-instance" '
    'xmlns:ooo="http://openoffice.org/2004/office" xmlns:ooow="http://openoffice.org/2004/writer" '
    'xmlns:oooc="http://openoffice.org/2004/calc" xmlns:dom="http://www.w3.org/2001/xml-events" '
    'xmlns:rpt="http://openoffice.org/2005/report" xmlns:xhtml="http://www.w3.org/1999/xhtml" '
    'xmlns:grddl="http://www.w3.org/2003/g/data-view#" xmlns:tableooo="http://openoffice.org/2009/table" '
    'xmlns:drawooo="http://openoffice.org/2010/draw" xmlns:field="urn:openoffice:names:experimental:ooo-ms-interop:xmlns:field:1.0" '
    'xmlns:formx="urn:openoffice:names:experimental:ooxml-odf-interop:xmlns:form:1.0" '
    'xmlns:css3t="http://www.w3.org/TR/css3-text/" xmlns:officeooo="http://openoffice.org/2009/office" '
    'xmlns:db="urn:oasis:names:tc:opendocument:xmlns:database:1.0" '
    'xmlns:dsig="urn:oasis:names:tc:opendocument:xmlns:digitalsignature:1.0" '
    'xmlns:rdfa="http://docs.oasis-open.org/opendocument/meta/rdfa#" '
    '>%%s</r>'
) % NS


def parse_fragment(xml: str):
    """Parse a namespace-less serialisation (as produced by Element.serialize())."""
    root = etree.fromstring((_WRAP % xml).encode("utf-8"))
    return root[0]


def _rep(elem, attr) -> int:
    v = elem.get(attr)
    if v is None:
        return 1
    try:
        return max(int(v), 1)
    except ValueError:
        return 1


def text_of_p(p) -> str:
    """Plain text of a paragraph: character data + text:s / tab / line-break."""
    out = []

    def walk(e):
        if e.text:
            out.append(e.text)
        for c in e:
            if c.tag == TX + "s":
                try:
                    n = int(c.get(TX + "c", "1"))
                except ValueError:
                    n = 1
                out.append(" " * n)
            elif c.tag == TX + "tab":
                out.append("\t")
            elif c.tag == TX + "line-break":
                out.append("\n")
            elif c.tag in (TX + "note", O + "annotation"):
                pass
            else:
                walk(c)
            if c.tail:
                out.append(c.tail)

    walk(p)
    return "".join(out)


def cell_value(cell):
    """Python value of a cell read from its office:* attributes."""
    vt = cell.get(O + "value-type")
    if vt is None:
        return None
    if vt in ("float", "percentage", "currency"):
        raw = cell.get(O + "value")
        if raw is None:
            return None
        d = Decimal(raw)
        if d == d.to_integral_value():
            return int(d)
        return d
    if vt == "string":
        s = cell.get(O + "string-value")
        if s is not None:
            return s
        return "\n".join(text_of_p(p) for p in cell.findall(TX + "p"))
    if vt == "boolean":
        return cell.get(O + "boolean-value") == "true"
    if vt == "date":
        return ("date", cell.get(O + "date-value"))
    if vt == "time":
        return ("time", cell.get(O + "time-value"))
    return ("?", vt)


def row_cells(row):
    return [c for c in row if c.tag in (CELL, COVERED)]


def row_runs(row, value=cell_value):
    return [(value(c), _rep(c, REP_C)) for c in row_cells(row)]


def expand_row(row, value=cell_value):
    out = []
    for v, k in row_runs(row, value):
        out.extend([v] * k)
    return out


def table_rows(table):
    """Rows in document order: direct children and children of the row wrappers."""
    rows = []
    for ch in table:
        if ch.tag == ROW:
            rows.append(ch)
        elif ch.tag in ROW_WRAPPERS:
            rows.extend(c for c in ch if c.tag == ROW)
    return rows


def table_columns(table):
    cols = []
    for ch in table:
        if ch.tag == COLUMN:
            cols.append(ch)
        elif ch.tag in COL_WRAPPERS:
            cols.extend(c for c in ch if c.tag == COLUMN)
    return cols


def column_styles(table):
    """Style name of the column declaration covering each column position."""
    out = []
    for c in table_columns(table):
        out.extend([c.get(T + "style-name")] * _rep(c, REP_C))
    return out


def table_height(table) -> int:
    return sum(_rep(r, REP_R) for r in table_rows(table))


def table_width(table) -> int:
    return sum(_rep(c, REP_C) for c in table_columns(table))


def table_matrix(table, value=cell_value):
    """Expanded ragged matrix (list of lists), rows repeated as declared."""
    out = []
    for r in table_rows(table):
        vals = expand_row(r, value)
        for _ in range(_rep(r, REP_R)):
            out.append(list(vals))
    return out


def run_map(items, attr):
    """odfdo-style position map: last logical position covered by each item."""
    m, pos = [], -1
    for it in items:
        pos += _rep(it, attr)
        m.append(pos)
    return m


def padded(matrix, width):
    return [row + [None] * (width - len(row)) for row in matrix]
