"""Re-execute a replay file with plain odfdo calls (no explorer).

exit 1 if the recorded oracle still fails at the recorded step, 0 otherwise.
"""

from __future__ import annotations

import json
import sys


def get_machine(name):
    if name == "row":
        from .machines.rows import RowMachine

        return RowMachine()
    if name == "table":
        from .machines.tables import TableMachine

        return TableMachine()
    if name == "package":
        from .machines.packages import PackageMachine

        return PackageMachine()
    if name == "transform":
        from .machines.transforms import TransformMachine

        return TransformMachine()
    raise SystemExit(f"unknown machine {name!r}")


def tup(o):
    if isinstance(o, list):
        return tuple(tup(x) for x in o)
    return o


def main(path):
    rp = json.loads(open(path).read())
    if "replay_module" in rp:
        import importlib

        mod = importlib.import_module(rp["replay_module"])
        return mod.replay(rp)
    machine = get_machine(rp["machine"])
    prop = rp["property"]
    st = machine.new(rp["seed"])
    fails = machine.check(st, prop, None)
    hist = [tup(o) for o in rp["history"]]
    for i, op in enumerate(hist):
        if fails:
            break
        st = machine.new(rp["seed"])
        for o in hist[:i]:
            machine.step(st, o)
        machine.step(st, op)
        print(f"step {i}: {op} -> exc={getattr(st, 'exc', None)}")
        fails = machine.check(st, prop, op)
    if fails:
        for f in fails:
            print(f"FAIL {f.oracle}: expected={f.expected!r} actual={f.actual!r}\n  signature: {f.signature}")
        print(json.dumps(machine.describe(st), indent=1, default=repr)[:3000])
        return 1
    print("replay passes (no oracle fails)")
    return 0
