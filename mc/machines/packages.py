"""Package machine: a Document and its container, against a dict-of-parts model.

Serves C03 (save/reopen loses nothing) and C04 (saved zip is a valid package,
manifest == content).  The model is maintained with plain zipfile + lxml: every
XML part is an independently parsed tree on which the same simple edits are
applied; other parts are bytes.
"""

from __future__ import annotations

import copy
import io
import os
import shutil
import tempfile
import zipfile
from pathlib import Path

from lxml import etree

from odfdo import Document, Frame, Paragraph, Style

from ..engine import Failure, digest

SAMPLES = Path(os.environ.get("ODFDO_REPO", "/repo")) / "tests/samples"
NS = {
    "office": "urn:oasis:names:tc:opendocument:xmlns:office:1.0",
    "text": "urn:oasis:names:tc:opendocument:xmlns:text:1.0",
    "meta": "urn:oasis:names:tc:opendocument:xmlns:meta:1.0",
    "dc": "http://purl.org/dc/elements/1.1/",
    "style": "urn:oasis:names:tc:opendocument:xmlns:style:1.0",
    "manifest": "urn:oasis:names:tc:opendocument:xmlns:manifest:1.0",
    "draw": "urn:oasis:names:tc:opendocument:xmlns:drawing:1.0",
    "xlink": "http://www.w3.org/1999/xlink",
}
XML_PARTS = ("content.xml", "styles.xml", "meta.xml", "settings.xml", "META-INF/manifest.xml")
MANIFEST = "META-INF/manifest.xml"
MIMES = {
    "application/vnd.oasis.opendocument.text", "application/vnd.oasis.opendocument.spreadsheet",
    "application/vnd.oasis.opendocument.presentation", "application/vnd.oasis.opendocument.graphics",
    "application/vnd.oasis.opendocument.chart", "application/vnd.oasis.opendocument.formula",
    "application/vnd.oasis.opendocument.image", "application/vnd.oasis.opendocument.text-master",
    "application/vnd.oasis.opendocument.text-template", "application/vnd.oasis.opendocument.spreadsheet-template",
    "application/vnd.oasis.opendocument.presentation-template", "application/vnd.oasis.opendocument.graphics-template",
    "application/vnd.oasis.opendocument.text-web",
}
IMG = SAMPLES / "image.png"
ALT_MARK = "ALTCONTENTMARK"

_TMP = [None, None]


def tmpdir():
    """Per-process scratch directory under $MC_TMP (created and removed by the check's run())."""
    if _TMP[0] is None or _TMP[1] != os.getpid() or not os.path.isdir(_TMP[0]):
        base = os.environ.get("MC_TMP")
        if not base:
            base = tempfile.mkdtemp(prefix="odfdo_verif_", dir="/dev/shm" if os.path.isdir("/dev/shm") else None)
            os.environ["MC_TMP"] = base
            import atexit

            atexit.register(shutil.rmtree, base, True)
        d = os.path.join(base, f"w{os.getpid()}")
        os.makedirs(d, exist_ok=True)
        _TMP[0], _TMP[1] = d, os.getpid()
    return _TMP[0]


_STATE_DIRS = []


def state_dir():
    """A fresh scratch directory for one state (targets are overwritten in place, as a user would:
    what another history left at the same path must not be there). The three most recent ones
    are kept, older ones removed."""
    base = tmpdir()
    d = tempfile.mkdtemp(prefix="s", dir=base)
    _STATE_DIRS.append(d)
    while len(_STATE_DIRS) > 3:
        shutil.rmtree(_STATE_DIRS.pop(0), ignore_errors=True)
    return d


def strip_generator(tree_or_root):
    root = tree_or_root.getroot() if hasattr(tree_or_root, "getroot") else tree_or_root
    for g in root.iter("{%s}generator" % NS["meta"]):
        g.getparent().remove(g)


def c14n(root):
    return etree.tostring(root, method="c14n2")


def parse(b):
    return etree.fromstring(b)


def canon_elem(e):
    """Namespace-prefix independent canonical form of a subtree (without its tail)."""
    def rec(x):
        if not isinstance(x.tag, str):
            return ("#", x.tail or "")
        return (x.tag, tuple(sorted(x.attrib.items())), x.text or "", tuple((rec(c), c.tail or "") for c in x))
    return repr(rec(e))


def read_zip(fobj_or_path):
    """Independent reader: ordered list of (name, bytes, compress_type)."""
    out = []
    with zipfile.ZipFile(fobj_or_path) as zf:
        for info in zf.infolist():
            out.append((info.filename, zf.read(info.filename), info.compress_type))
    return out


def read_folder(path):
    out = []
    base = Path(path)
    for p in sorted(base.rglob("*")):
        rel = p.relative_to(base).as_posix()
        if any(part.startswith(".") for part in p.relative_to(base).parts):
            continue
        if p.is_file():
            out.append((rel, p.read_bytes(), None))
        elif p.is_dir() and not any(p.iterdir()):
            out.append((rel + "/", b"", None))
    return out


class Model:
    """name -> ('xml', lxml root) | ('bin', bytes)"""

    def __init__(self, entries):
        self.parts = {}
        for name, data, _ in entries:
            self.parts[name] = self._mk(name, data)

    @staticmethod
    def _mk(name, data):
        # XML parts of the document and of embedded objects ("Object 1/content.xml")
        if name in XML_PARTS or (name.count("/") == 1 and name.split("/")[1] in ("content.xml", "styles.xml", "meta.xml", "settings.xml")):
            try:
                return ("xml", parse(data))
            except Exception:
                return ("bin", data)
        return ("bin", data)

    def copy(self):
        m = Model([])
        m.parts = {k: (v[0], copy.deepcopy(v[1]) if v[0] == "xml" else v[1]) for k, v in self.parts.items()}
        return m

    def canon(self, name):
        kind, v = self.parts[name]
        if kind == "bin":
            return ("bin", v)
        r = copy.deepcopy(v)
        strip_generator(r)
        return ("xml", c14n(r))

    def manifest_entries(self):
        kind, v = self.parts.get(MANIFEST, ("bin", b""))
        if kind != "xml":
            return []
        return [(e.get("{%s}full-path" % NS["manifest"]), e.get("{%s}media-type" % NS["manifest"])) for e in v.iter("{%s}file-entry" % NS["manifest"])]

    def key(self):
        items = []
        for name in sorted(self.parts):
            c = self.canon(name)
            items.append((name, c[0], digest(c[1]) if name != MANIFEST else digest(repr(sorted(self.manifest_entries(), key=repr)))))
        return tuple(items)


class State:
    __slots__ = ("doc", "model", "exc", "diverged", "pre", "depth", "saved", "last_target", "last_kind", "opened_as", "others", "deleted", "pretty", "dir", "own_path")


def seed_specs():
    seeds = [{"kind": "template", "name": t} for t in ("text", "spreadsheet", "presentation", "drawing")]
    files = sorted(p.name for p in SAMPLES.iterdir() if p.suffix in (".odt", ".ods", ".odp", ".odg"))
    for f in files:
        seeds.append({"kind": "file", "name": f})
    for f in ("example.odt", "simple_table.ods", "frame_image.odp"):
        seeds.append({"kind": "bytesio", "name": f})
        seeds.append({"kind": "folder", "name": f})
    # the XML parts written by another producer in a legal non-UTF-8 encoding, with non-ASCII text
    seeds.append({"kind": "recoded", "name": "example.odt", "encoding": "ISO-8859-1"})
    seeds.append({"kind": "recoded", "name": "simple_table.ods", "encoding": "UTF-16"})
    return seeds


def recoded_package(name, encoding):
    """The sample re-zipped with content.xml / styles.xml / meta.xml declared and encoded in `encoding`,
    and a paragraph / cell text holding non-ASCII characters."""
    src = zipfile.ZipFile(SAMPLES / name)
    buf = io.BytesIO()
    with zipfile.ZipFile(buf, "w") as out:
        for info in src.infolist():
            data = src.read(info.filename)
            if info.filename in ("content.xml", "styles.xml", "meta.xml"):
                root = etree.fromstring(data)
                if info.filename == "content.xml":
                    for p in root.iter("{%s}p" % NS["text"]):
                        p.text = "caf\u00e9 cr\u00e8me \u00fc " + (p.text or "")
                        break
                data = etree.tostring(root, encoding=encoding, xml_declaration=True)
            out.writestr(info.filename, data, zipfile.ZIP_STORED if info.filename == "mimetype" else zipfile.ZIP_DEFLATED)
    return buf.getvalue()


class PackageMachine:
    name = "package"

    def __init__(self, cfg=None):
        self.cfg = cfg or {}
        self.seed_list = seed_specs()

    def select_seeds(self, which):
        idx = list(range(len(self.seed_list)))
        if which == "all":
            return idx
        if which == "nobig":
            return [i for i in idx if self.seed_list[i]["name"] != "big.ods"]
        if which == "small":
            names = {"text", "spreadsheet", "presentation", "drawing", "example.odt", "simple_table.ods", "frame_image.odp"}
            return [i for i in idx if self.seed_list[i]["name"] in names and self.seed_list[i]["kind"] != "recoded"] + [i for i in idx if self.seed_list[i]["kind"] == "recoded"][:1]
        if which == "templates":
            return idx[:4]
        raise ValueError(which)

    # ------------------------------------------------------------ build
    def new(self, seed):
        st = State()
        st.exc = None
        st.pre = None
        st.diverged = False
        st.depth = 0
        st.saved = False
        st.last_target = None
        st.last_kind = None
        st.dir = state_dir()
        st.own_path = False  # the document was opened from a path inside st.dir: saving in place is allowed
        st.others = []
        st.deleted = False
        st.pretty = False
        kind, name = seed["kind"], seed["name"]
        if kind == "template":
            st.doc = Document(name)
            buf = io.BytesIO()
            # model of a template document: what a fresh document holds = independent read of
            # the template container saved once is not independent; read the template file itself
            import importlib.resources as rso

            from odfdo.const import ODF_TEMPLATES

            with rso.as_file(rso.files("odfdo.templates").joinpath(ODF_TEMPLATES[name])) as tp:
                entries = read_zip(tp)
            st.model = Model(entries)
            # documented: a document made from a template is a regular document
            mt = st.model.parts["mimetype"][1].decode().replace("-template", "")
            st.model.parts["mimetype"] = ("bin", mt.encode())
            for e in st.model.parts[MANIFEST][1].iter("{%s}file-entry" % NS["manifest"]):
                if e.get("{%s}full-path" % NS["manifest"]) == "/":
                    e.set("{%s}media-type" % NS["manifest"], mt)
            st.opened_as = "template"
        elif kind == "file":
            path = SAMPLES / name
            st.doc = Document(str(path))
            st.model = Model(read_zip(path))
            st.opened_as = "zip-path"
        elif kind == "recoded":
            data = recoded_package(name, seed["encoding"])
            st.doc = Document(io.BytesIO(data))
            st.model = Model(read_zip(io.BytesIO(data)))
            st.opened_as = "bytesio"
        elif kind == "bytesio":
            data = (SAMPLES / name).read_bytes()
            st.doc = Document(io.BytesIO(data))
            st.model = Model(read_zip(io.BytesIO(data)))
            st.opened_as = "bytesio"
        elif kind == "folder":
            folder = os.path.join(st.dir, f"seed_{name}.folder")
            if os.path.isdir(folder):
                shutil.rmtree(folder)
            with zipfile.ZipFile(SAMPLES / name) as zf:
                zf.extractall(folder)
            st.doc = Document(folder)
            st.model = Model(read_folder(folder))
            st.opened_as = "folder"
            st.own_path = True
        return st

    # ------------------------------------------------------------ alphabet
    def enabled(self, st, alphabet):
        ops = []
        if alphabet in ("c03", "c03s"):
            ops += [("touch", "content"), ("touch", "styles"), ("touch", "meta"), ("touch", "manifest"), ("touch", "settings")]
            ops += [("edit_body",), ("edit_meta",), ("insert_style",), ("set_part_xml",), ("set_part_bin",), ("del_part_bin",)]
            ops += [("add_file", "path"), ("add_file", "io"), ("clone",), ("set_mimetype",)]
            if self._object_parts(st):
                ops += [("edit_object_part",)]
            ops += [("save", "zip"), ("save", "bytesio"), ("save", "folder"), ("save", "folder-default"), ("save", "zip-pretty"), ("save_xml",)]
            ops = [o for o in ops if not (o[0] == "save_xml" and getattr(st, "deleted", False))]
            if st.own_path:
                ops.append(("save", "inplace"))
            if st.last_kind == "bytesio" and isinstance(st.last_target, io.BytesIO):
                ops.append(("save", "bytesio-again"))  # the buffer of the previous save is used again
        elif alphabet == "c04":
            ops += [("add_file", "path"), ("add_file", "io"), ("add_file", "io2"), ("del_part_bin",), ("del_part_added",), ("del_part_untyped",), ("image_frame",), ("merge_styles",), ("merge_styles", "example.odp"), ("merge_styles", "background.odp"), ("clone",), ("edit_body",), ("touch", "manifest")]
            ops += [("save", "zip"), ("save", "bytesio")]
        elif alphabet == "c04m":
            ops += [("add_file", "path"), ("add_file", "io"), ("del_part_added",), ("del_part_bin",), ("del_part_untyped",), ("save", "zip")]
        if st.saved:
            ops.append(("reopen",))
        return ops

    # ------------------------------------------------------------ step
    def _object_parts(self, st):
        return sorted(n for n, (k, _) in st.model.parts.items() if k == "xml" and "/" in n and n != MANIFEST)

    def _bin_names(self, st):
        return sorted(n for n, (k, _) in st.model.parts.items() if k == "bin" and n != "mimetype" and not n.endswith(("/", ".xml", ".rdf")))

    def step(self, st, op):
        st.exc = None
        st.depth += 1
        doc, m = st.doc, st.model
        name = op[0]
        st.pre = {"parsed": sorted(getattr(doc, "_Document__xmlparts", {}).keys()), "opened_as": st.opened_as}
        try:
            if name == "touch":
                part = doc.get_part(op[1])
                if part is not None:
                    part.root  # parse
            elif name == "edit_body":
                doc.body.append(Paragraph("MCMARK"))
                if m.parts["content.xml"][0] == "xml":
                    root = m.parts["content.xml"][1]
                    body = root.find("{%s}body" % NS["office"])
                    p = etree.SubElement(body[0], "{%s}p" % NS["text"])
                    p.text = "MCMARK"
            elif name == "edit_meta":
                doc.meta.title = "MCTITLE"
                root = m.parts["meta.xml"][1]
                meta = root.find("{%s}meta" % NS["office"])
                t = meta.find("{%s}title" % NS["dc"])
                if t is None:
                    t = etree.SubElement(meta, "{%s}title" % NS["dc"])
                t.text = "MCTITLE"
            elif name == "insert_style":
                style = Style("paragraph", name="MCSTYLE")
                xml = style.serialize(with_ns=True)
                doc.insert_style(style)
                root = m.parts["styles.xml"][1]
                cont = root.find("{%s}styles" % NS["office"])
                for old in [e for e in cont if e.get("{%s}name" % NS["style"]) == "MCSTYLE" and e.get("{%s}family" % NS["style"]) == "paragraph"]:
                    cont.remove(old)
                cont.append(etree.fromstring(xml))
            elif name == "set_part_xml":
                kind, root = m.parts["content.xml"]
                alt = copy.deepcopy(root)
                body = alt.find("{%s}body" % NS["office"])
                p = etree.SubElement(body[0], "{%s}p" % NS["text"])
                p.text = ALT_MARK
                data = b'<?xml version="1.0" encoding="UTF-8"?>\n' + etree.tostring(alt)
                doc.set_part("content.xml", data)
                m.parts["content.xml"] = ("xml", parse(data))
            elif name == "set_mimetype":
                # the document becomes a template (or a plain document again); the mimetype part must say so
                cur = m.parts["mimetype"][1].decode()
                new = cur[: -len("-template")] if cur.endswith("-template") else cur + "-template"
                doc.mimetype = new
                m.parts["mimetype"] = ("bin", new.encode())
                if doc.mimetype != new:
                    raise RuntimeError(f"mimetype reads back {doc.mimetype!r} after being set to {new!r}")
            elif name == "edit_object_part":
                pn = self._object_parts(st)[0]
                part = doc.get_part(pn)
                part.root.set_attribute("office:version", "9.9")
                m.parts[pn][1].set("{%s}version" % NS["office"], "9.9")
            elif name == "set_part_bin":
                doc.set_part("Pictures/mcnew.bin", b"\x00\x01binary\xff")
                m.parts["Pictures/mcnew.bin"] = ("bin", b"\x00\x01binary\xff")
            elif name == "del_part_bin":
                names = self._bin_names(st)
                if names:
                    doc.del_part(names[0])
                    del m.parts[names[0]]
                    self._model_manifest_del(m, names[0])
                    st.deleted = True
            elif name == "del_part_untyped":
                # a part the manifest declares with an empty media type (Configurations2/accelerator/current.xml ...)
                names = [pth for pth, mt in sorted(m.manifest_entries(), key=repr) if not mt and pth and not pth.endswith("/") and pth in m.parts]
                if names:
                    doc.del_part(names[0])
                    del m.parts[names[0]]
                    self._model_manifest_del(m, names[0])
                    st.deleted = True
            elif name == "del_part_added":
                names = [n for n in self._bin_names(st) if n.startswith("Pictures/") and ("mc" in n or len(n) > 30)]
                if names:
                    doc.del_part(names[-1])
                    del m.parts[names[-1]]
                    self._model_manifest_del(m, names[-1])
                    st.deleted = True
            elif name == "add_file":
                data = IMG.read_bytes()
                if op[1] == "path":
                    uri = doc.add_file(str(IMG))
                elif op[1] == "io":
                    uri = doc.add_file(io.BytesIO(data))
                else:
                    data = data + b"\x00"
                    uri = doc.add_file(io.BytesIO(data))
                m.parts[uri] = ("bin", data)
                self._model_manifest_add(m, "Pictures/", "")
                # a file-like object has no name: documented fallback media type
                self._model_manifest_add(m, uri, "image/png" if op[1] == "path" else "application/octet-stream")
            elif name == "image_frame":
                data = IMG.read_bytes()
                uri = doc.add_file(str(IMG))
                frame = Frame.image_frame(uri, size=("1cm", "1cm"), anchor_type="paragraph")
                par = Paragraph("")
                par.append(frame)
                doc.body.append(par)
                m.parts[uri] = ("bin", data)
                self._model_manifest_add(m, "Pictures/", "")
                self._model_manifest_add(m, uri, "image/png")
                m.parts["content.xml"] = ("dirty", None)
            elif name == "merge_styles":
                # (the presentations carry pictures on their master pages / as fill images: merged along)
                other = Document(str(SAMPLES / (op[1] if len(op) > 1 else "lpod_styles.odt")))
                doc.merge_styles_from(other)
                m.parts["content.xml"] = ("dirty", None)
                m.parts["styles.xml"] = ("dirty", None)
                m.parts[MANIFEST] = ("dirty-manifest", None)
            elif name == "clone":
                st.others.append(doc)
                st.doc = doc.clone
                st.own_path = False  # a clone has no place of its own
            elif name == "save":
                self._save(st, op[1])
            elif name == "save_xml":
                self._save(st, "xml")
            elif name == "reopen":
                if st.last_kind == "bytesio":
                    # (the buffer itself is left as the save left it: rewinding it without truncating and
                    # saving into it again is the caller's error, as with zipfile.ZipFile(buf, "w"))
                    st.doc = Document(io.BytesIO(st.last_target.getvalue()))
                    st.model = Model(read_zip(io.BytesIO(st.last_target.getvalue())))
                    st.opened_as = "bytesio"
                    st.own_path = False
                elif st.last_kind == "zip":
                    st.doc = Document(st.last_target)
                    st.model = Model(read_zip(st.last_target))
                    st.opened_as = "zip-path"
                    st.own_path = True
                elif st.last_kind == "folder":
                    st.doc = Document(st.last_target + ".folder")
                    st.model = Model(read_folder(st.last_target + ".folder"))
                    st.opened_as = "folder"
                    st.own_path = True
                st.saved = False
            else:
                raise AssertionError(op)
        except AssertionError:
            raise
        except Exception as e:
            st.exc = f"{type(e).__name__}: {e}"[:200]

    @staticmethod
    def _model_manifest_del(m, path):
        kind, root = m.parts.get(MANIFEST, (None, None))
        if kind != "xml":
            return
        for e in list(root.iter("{%s}file-entry" % NS["manifest"])):
            if e.get("{%s}full-path" % NS["manifest"]) == path:
                e.getparent().remove(e)

    @staticmethod
    def _model_manifest_add(m, path, media):
        kind, root = m.parts.get(MANIFEST, (None, None))
        if kind != "xml":
            return
        for e in root.iter("{%s}file-entry" % NS["manifest"]):
            if e.get("{%s}full-path" % NS["manifest"]) == path:
                e.set("{%s}media-type" % NS["manifest"], media)
                return
        e = etree.SubElement(root, "{%s}file-entry" % NS["manifest"])
        e.set("{%s}media-type" % NS["manifest"], media)
        e.set("{%s}full-path" % NS["manifest"], path)

    def _save(self, st, kind):
        st.pretty = False
        # one target per packaging inside the state's own directory: a second save of the same kind
        # overwrites the first, as a user saving again would
        base = os.path.join(st.dir, "out")
        if kind == "inplace":
            path = str(st.doc.container.path)
            if st.opened_as == "folder":
                st.doc.save(packaging="folder", pretty=False)
                target = path[: -len(".folder")] if path.endswith(".folder") else path
                kind = "folder"
            else:
                st.doc.save(pretty=False)
                target = path
                kind = "zip"
        elif kind == "zip":
            target = base + ".odx"
            st.doc.save(target, pretty=False)
        elif kind == "bytesio-again":
            target = st.last_target
            st.doc.save(target, pretty=False)
            kind = "bytesio"
        elif kind == "bytesio":
            target = io.BytesIO()
            st.doc.save(target, pretty=False)
        elif kind == "folder":
            target = base
            st.doc.save(target, packaging="folder", pretty=False)
        elif kind == "folder-default":
            target = base
            st.doc.save(target, packaging="folder")  # pretty by default
            kind = "folder"
            st.pretty = True
        elif kind == "zip-pretty":
            target = io.BytesIO()
            st.doc.save(target, pretty=True)
            kind = "bytesio"
            st.pretty = True
        elif kind == "xml":
            target = io.BytesIO()
            st.doc.save(target, packaging="xml", pretty=False)
        st.last_target = target
        st.last_kind = kind
        st.saved = kind != "xml"

    def nontrivial(self, st, op):
        return op[0] in ("save", "save_xml") and st.depth > 1

    # ------------------------------------------------------------ oracles
    def read_saved(self, st):
        if st.last_kind == "zip":
            return read_zip(st.last_target)
        if st.last_kind == "bytesio":
            return read_zip(io.BytesIO(st.last_target.getvalue()))
        if st.last_kind == "folder":
            return read_folder(st.last_target + ".folder")
        return None

    def check(self, st, prop, op):
        fails = []
        if op is None:
            return fails
        name = op[0]
        pre = st.pre or {}
        cls_parts = [f"opened={pre.get('opened_as')}"]
        if pre.get("parsed"):
            cls_parts.append("parsed=" + "+".join(Path(p).stem for p in pre["parsed"]))
        cls = ",".join(cls_parts)

        def fail(oracle, exp, act, symptom, site=None):
            st.diverged = True
            fails.append(Failure(oracle, exp, act, f"site=Document.{site or name}{('(' + str(op[1]) + ')') if len(op) > 1 else ''}; class={cls}; symptom={symptom}"))

        if st.exc:
            fail("raises", "no exception", st.exc, f"raises:{st.exc.split(':')[0]}")
            return fails
        if name not in ("save", "save_xml"):
            return fails
        hist_cls = getattr(st, "_hist", None)
        if name == "save_xml":
            if prop != "C03":
                return fails
            data = st.last_target.getvalue()
            try:
                flat = etree.fromstring(data)
            except Exception as e:
                fail("flat-xml-well-formed", "well-formed", type(e).__name__, "flat-xml-not-well-formed")
                return fails
            kind, root = st.model.parts.get("content.xml", (None, None))
            if kind == "xml":
                def in_image(p):
                    a = p.getparent()
                    while a is not None:
                        if a.tag == "{%s}image" % NS["draw"]:
                            return True
                        a = a.getparent()
                    return False

                want = {canon_elem(p) for p in root.iter("{%s}p" % NS["text"], "{%s}h" % NS["text"]) if not list(p.iter("{%s}image" % NS["draw"])) and not in_image(p)}
                have = {canon_elem(p) for p in flat.iter("{%s}p" % NS["text"], "{%s}h" % NS["text"])}
                missing = want - have
                if missing:
                    fail("flat-xml-content", f"{len(want)} paragraphs", f"{len(missing)} missing, e.g. {sorted(missing)[0][:120]!r}", "flat-xml-loses-content")
            return fails
        try:
            entries = self.read_saved(st)
        except Exception as e:
            fail("saved-package-readable", "a readable package", f"{type(e).__name__}: {e}"[:150], f"saved-package-unreadable:{type(e).__name__}")
            return fails
        names = [n for n, _, _ in entries]
        if prop == "C03":
            m = st.model
            exp_names = set(m.parts)
            got_names = set(names)
            # manifest.rdf is deliberately reconciled with the manifest (judged under C04)
            exp_names.discard("META-INF/manifest.rdf")
            got_names.discard("META-INF/manifest.rdf")
            if st.last_kind == "folder":
                # a folder cannot hold an empty-named or directory-only distinction
                exp_names = {n for n in exp_names}
            lost = sorted(exp_names - got_names)
            invented = sorted(got_names - exp_names)
            if lost:
                fail("no-part-lost", [], lost, "part-lost")
            if invented:
                fail("no-part-invented", [], invented, "part-invented")
            got = {n: d for n, d, _ in entries}
            for n in sorted(exp_names & got_names):
                kind, v = m.parts[n]
                if kind in ("dirty", "dirty-manifest"):
                    continue
                if n == MANIFEST:
                    try:
                        gm = Model([(n, got[n], None)])
                        if sorted(gm.manifest_entries(), key=repr) != sorted(m.manifest_entries(), key=repr) and not any(k == "dirty-manifest" for k, _ in m.parts.values()):
                            fail("manifest-entries", sorted(m.manifest_entries(), key=repr), sorted(gm.manifest_entries(), key=repr), "manifest-differs")
                    except Exception as e:
                        fail("manifest-parse", "well-formed", type(e).__name__, "manifest-not-well-formed")
                    continue
                if kind == "bin":
                    if got[n] != v:
                        fail("binary-part-identical", f"{n}: {len(v)} bytes", f"{len(got[n])} bytes", "binary-part-differs")
                else:
                    try:
                        g = parse(got[n])
                    except Exception as e:
                        fail("xml-part-well-formed", n, type(e).__name__, "xml-part-not-well-formed")
                        continue
                    strip_generator(g)
                    e2 = copy.deepcopy(v)
                    strip_generator(e2)
                    if st.pretty:
                        # an indenting save: equal up to white space that consumers ignore
                        from ..checks.c11 import doc_view

                        if doc_view(g) != doc_view(e2):
                            gp, gs = doc_view(g)
                            ep, es = doc_view(e2)
                            fail("xml-part-readable-content", f"{n}: same paragraphs, elements, attributes", "paragraph text differs" if gs == es else "markup differs", f"xml-part-differs-under-pretty:{n}")
                    elif c14n(g) != c14n(e2):
                        # which way does it differ?
                        gt = b"".join(etree.tostring(g, method="text", encoding="utf-8").split())
                        et = b"".join(etree.tostring(e2, method="text", encoding="utf-8").split())
                        fail("xml-part-infoset", f"{n}: in-memory infoset", "saved part differs" + (" (text differs)" if gt != et else " (markup differs)"), f"xml-part-differs:{n}")
            # the saved package reopens
            try:
                if st.last_kind == "bytesio":
                    d2 = Document(io.BytesIO(st.last_target.getvalue()))
                elif st.last_kind == "zip":
                    d2 = Document(st.last_target)
                else:
                    d2 = Document(st.last_target + ".folder")
                if st.model.parts.get("content.xml", ("", None))[0] == "xml" and not st.pretty:
                    r2 = d2.content.root._Element__element
                    e2 = copy.deepcopy(st.model.parts["content.xml"][1])
                    if c14n(r2) != c14n(e2):
                        fail("reopened-content", "content.xml infoset", "differs", "reopened-document-differs")
            except Exception as e:
                fail("reopen", "no exception", f"{type(e).__name__}: {e}"[:200], f"reopen-raises:{type(e).__name__}")
        if prop == "C04" and st.last_kind in ("zip", "bytesio"):
            for oracle, exp, act in self.package_invariants(entries):
                fail(oracle, exp, act, oracle)
        return fails

    @staticmethod
    def package_invariants(entries):
        out = []
        names = [n for n, _, _ in entries]
        if not entries or entries[0][0] != "mimetype":
            out.append(("mimetype-first", "mimetype", names[:1]))
        else:
            n, data, ctype = entries[0]
            if ctype != zipfile.ZIP_STORED:
                out.append(("mimetype-stored", "ZIP_STORED", ctype))
            if data.decode("utf8", "replace") not in MIMES:
                out.append(("mimetype-value", "an ODF mimetype", data[:60]))
        dups = sorted({n for n in names if names.count(n) > 1})
        if dups:
            out.append(("duplicate-zip-entries", [], dups))
        data = {n: d for n, d, _ in entries}
        if MANIFEST not in data:
            out.append(("manifest-present", MANIFEST, "absent"))
            return out
        try:
            root = etree.fromstring(data[MANIFEST])
        except Exception as e:
            out.append(("manifest-well-formed", "well-formed", type(e).__name__))
            return out
        listed = [e.get("{%s}full-path" % NS["manifest"]) for e in root.iter("{%s}file-entry" % NS["manifest"])]
        media = {e.get("{%s}full-path" % NS["manifest"]): e.get("{%s}media-type" % NS["manifest"]) for e in root.iter("{%s}file-entry" % NS["manifest"])}
        twice = sorted({p for p in listed if listed.count(p) > 1})
        if twice:
            out.append(("manifest-lists-twice", [], twice))
        files = [n for n in names if not n.endswith("/") and n not in ("mimetype", MANIFEST)]
        not_listed = sorted(f for f in files if f not in listed)
        if not_listed:
            out.append(("file-not-in-manifest", [], not_listed))
        absent = sorted(p for p in listed if p != "/" and not p.endswith("/") and p not in names)
        if absent:
            out.append(("manifest-lists-absent-file", [], absent))
        # (directory entries such as "Pictures/" are not files of the package: not judged)
        if "/" not in media:
            out.append(("manifest-root-entry", "/", "absent"))
        elif entries and entries[0][0] == "mimetype" and media["/"] != entries[0][1].decode("utf8", "replace"):
            out.append(("manifest-root-mimetype", entries[0][1].decode("utf8", "replace"), media["/"]))
        return out

    # ------------------------------------------------------------ key etc.
    def key(self, st):
        """Implementation state (every parsed tree, every loaded part) + model state."""
        xp = getattr(st.doc, "_Document__xmlparts", {})
        parsed = []
        for path in sorted(xp):
            part = xp[path]
            tree = getattr(part, "_XmlPart__tree", None) if part is not None else None
            if tree is not None:
                r = copy.deepcopy(tree.getroot())
                strip_generator(r)
                parsed.append((path, digest(etree.tostring(r))))
            else:
                parsed.append((path, None))
        parts = getattr(st.doc.container, "_Container__parts", {})
        loaded = tuple(sorted((k, None if v is None else digest(v)) for k, v in parts.items() if k != "meta.xml"))
        mk = tuple((n, k) for n, (k, _) in sorted(st.model.parts.items()))
        try:
            mkey = st.model.key() if not any(k.startswith("dirty") for _, (k, _) in st.model.parts.items()) else mk
        except Exception:
            mkey = mk
        return digest(tuple(parsed), loaded, mkey, st.saved, st.last_kind, st.opened_as, st.exc, len(st.others))

    def outcome(self, st):
        return (st.exc is None, st.last_kind)

    def expandable(self, st):
        return not st.diverged and not st.exc

    def describe(self, st):
        return {"parts": sorted(st.model.parts), "opened_as": st.opened_as}
