"""Row machine: one odfdo Row as a vault of cells, against RowModel.

Serves C01 (grid equivalence), C02 (live == fresh parse == independent reader,
cache coherence), C07 (structural validity of the row XML).
"""

from __future__ import annotations

import itertools

from lxml import etree

from odfdo import Cell, Element, Row

from ..engine import Failure, digest
from ..models import tableread as TR
from ..models.grid import RowModel, norm_index

VALS = {1: "1", 2: "2", 3: "3", 7: "7", 8: "8", 9: "9"}


def cell_xml(v, k=1):
    """v: int | None | "S" (styled empty) | "C" (covered, empty) | ["O", value, colspan, rowspan]
    | str starting with "=" is not used; other str -> string cell."""
    rep = f' table:number-columns-repeated="{k}"' if k > 1 else ""
    if v is None:
        return f"<table:table-cell{rep}/>"
    if v == "S":
        return f'<table:table-cell table:style-name="ce1"{rep}/>'
    if v == "C":
        return f"<table:covered-table-cell{rep}/>"
    if isinstance(v, (list, tuple)) and v and v[0] == "O":
        _, val, cs, rs = v
        return (
            f'<table:table-cell office:value-type="float" office:value="{val}" '
            f'table:number-columns-spanned="{cs}" table:number-rows-spanned="{rs}"{rep}>'
            f"<text:p>{val}</text:p></table:table-cell>"
        )
    if isinstance(v, (list, tuple)) and v and v[0] == "N":
        # a value cell without any text:p child, as minimal generators write it (legal ODF)
        kind, val = v[1], v[2]
        attr = {"float": "office:value", "boolean": "office:boolean-value", "string": "office:string-value"}[kind]
        return f'<table:table-cell office:value-type="{kind}" {attr}="{val}"{rep}/>'
    if isinstance(v, str):
        return (
            f'<table:table-cell office:value-type="string" office:string-value="{v}"{rep}>'
            f"<text:p>{v}</text:p></table:table-cell>"
        )
    return (
        f'<table:table-cell office:value-type="float" office:value="{v}"{rep}>'
        f"<text:p>{v}</text:p></table:table-cell>"
    )


def compositions(n):
    """All ways to write n as an ordered sum of positive integers."""
    if n == 0:
        yield ()
        return
    for first in range(1, n + 1):
        for rest in compositions(n - first):
            yield (first,) + rest


def encodings(values):
    """All run-length encodings of a logical row: list of lists of (v, k)."""
    runs = [(v, len(list(g))) for v, g in itertools.groupby(values)]
    per_run = [[[(v, k) for k in comp] for comp in compositions(n)] for v, n in runs]
    out = []
    for combo in itertools.product(*per_run):
        enc = [vk for part in combo for vk in part]
        out.append(enc)
    return out


def row_xml(enc, rep=1):
    r = f' table:number-rows-repeated="{rep}"' if rep > 1 else ""
    return f"<table:table-row{r}>" + "".join(cell_xml(v, k) for v, k in enc) + "</table:table-row>"


LOGICAL_ROWS = [
    [1, 1, 2, None],
    [1, 2, 2, 2],
    [None, None, 3],
    [],
]


class State:
    __slots__ = ("row", "model", "exc", "diverged", "pre")


class RowMachine:
    name = "row"

    def __init__(self, cfg=None):
        self.cfg = cfg or {}
        self.seed_list = []
        for vals in LOGICAL_ROWS:
            for enc in encodings(vals):
                self.seed_list.append({"kind": "xml", "enc": [list(p) for p in enc]})
        self.seed_list.append({"kind": "ctor", "width": 0})
        self.seed_list.append({"kind": "ctor", "width": 3})

    def select_seeds(self, which):
        return list(range(len(self.seed_list)))

    # ------------------------------------------------------------ build
    def new(self, seed):
        st = State()
        st.exc = None
        st.pre = None
        st.diverged = False
        if seed["kind"] == "xml":
            enc = [tuple(p) for p in seed["enc"]]
            st.row = Element.from_tag(row_xml(enc))
            st.model = RowModel([v for v, k in enc for _ in range(k)])
        else:
            st.row = Row(width=seed["width"])
            st.model = RowModel([None] * seed["width"])
        return st

    # ------------------------------------------------------------ alphabet
    def enabled(self, st, alphabet):
        W = st.model.width
        xs = sorted({0, 1, max(W - 1, 0), W, W + 1})
        full = alphabet == "full"
        ks = (1, 2, 3) if full else (1, 2)
        if not full:
            xs = [x for x in xs if x <= W]
        if alphabet == "mini":
            xs = sorted({0, max(W - 1, 0), W})
        ops = []
        for x in xs + [-1]:
            ops.append(("set_value", x, 7))
            for k in ks:
                ops.append(("set_cell", x, 8, k))
            ops.append(("set_cell", x, None, 2))
        for x in xs + [-1]:
            for k in ks:
                ops.append(("insert_cell", x, 9, k))
        for k in ks:
            ops.append(("append_cell", 7, k))
        ops.append(("append_cell", None, 2))
        for x in xs + [-1]:
            ops.append(("delete_cell", x))
        ops.append(("set_cells", [(8, 1), (9, 2)], 0))
        ops.append(("set_cells", [(8, 2), (9, 1)], 1))
        ops.append(("set_cells_noclone", [(8, 1), (9, 1), (7, 1), (8, 1), (9, 1), (7, 1), (8, 1)], 0))
        ops.append(("set_values", [7, 8], 0))
        ops.append(("set_values", [7, None, 8], 1))
        ops.append(("set_values", [7, 8, 9, 7, 8, 9, 7], 0))
        if full:
            ops.append(("set_cells", [(8, 3)], max(W - 1, 0)))
            ops.append(("set_values", [7, 8], W + 1))
        ops.append(("extend_cells", [(8, 1), (9, 2)]))
        ops.append(("clear",))
        ops.append(("rstrip",))
        for w in sorted({0, 1, max(W - 1, 0), W, W + 1}):
            if alphabet != "mini" or w in (1, max(W - 1, 0)):
                ops.append(("force_width", w))
        # Cell.repeated = k on a bound cell (run containing x)
        for x in sorted({0, max(W - 1, 0)}):
            if x < W:
                for k in ks:
                    ops.append(("cell_repeated", x, k))
        # cache-populating reads (deviations, C02)
        ops.append(("read_get_cell", 0))
        ops.append(("read_traverse",))
        if alphabet != "mini":
            ops.append(("read_minimized_width",))
        return ops

    # ------------------------------------------------------------ step
    def pre_info(self, st, op):
        """Input class of op in the model/XML pre-state (for signatures)."""
        elem = st.row._Element__element
        runs = TR.row_runs(elem)
        W = st.model.width
        info = {"W": W, "runs": len(runs), "maxrep": max([k for _, k in runs], default=0), "last_run": tuple(runs[-1]) if runs else None}
        name = op[0]
        x = None
        if name in ("set_value", "set_cell", "insert_cell", "delete_cell", "cell_repeated"):
            x = norm_index(op[1], W)
        elif name in ("set_cells", "set_values", "set_cells_noclone"):
            x = norm_index(op[2], W)
        k = 1
        if name in ("set_cell", "insert_cell"):
            k = op[3]
        elif name == "append_cell":
            k = op[2]
        elif name in ("set_cells", "extend_cells", "set_cells_noclone"):
            k = max(kk for _, kk in op[1])
        info["k"] = k
        info["cached"] = bool(st.row._indexes["_rmap"])
        if x is not None:
            if x == W:
                info["pos"] = "edge"
            elif x > W:
                info["pos"] = "beyond"
            else:
                # position inside its run
                start = 0
                for v, rk in runs:
                    if x < start + rk:
                        if rk == 1:
                            info["pos"] = "single"
                        elif x == start:
                            info["pos"] = "first"
                        elif x == start + rk - 1:
                            info["pos"] = "last"
                        else:
                            info["pos"] = "middle"
                        run_end = start + rk
                        end = x + k
                        if end <= run_end:
                            info["overlap"] = "none"
                        elif end > W:
                            info["overlap"] = "past-end"
                        else:
                            info["overlap"] = "next-runs"
                        info["run"] = (start, rk)
                        break
                    start += rk
        return info

    def nontrivial(self, st, op):
        pre = st.pre
        if pre is None:
            return False
        return pre.get("maxrep", 0) > 1 or pre.get("k", 1) > 1

    def step(self, st, op):
        row, m = st.row, st.model
        name = op[0]
        st.exc = None
        pre = st.pre = self.pre_info(st, op)
        try:
            if name == "set_value":
                row.set_value(op[1], op[2])
            elif name == "set_cell":
                row.set_cell(op[1], Cell(op[2], repeated=op[3]))
            elif name == "insert_cell":
                row.insert_cell(op[1], Cell(op[2], repeated=op[3]))
            elif name == "append_cell":
                row.append_cell(Cell(op[1], repeated=op[2]))
            elif name == "delete_cell":
                row.delete_cell(op[1])
            elif name == "set_cells":
                row.set_cells([Cell(v, repeated=k) for v, k in op[1]], start=op[2])
            elif name == "set_cells_noclone":
                row.set_cells([Cell(v, repeated=k) for v, k in op[1]], start=op[2], clone=False)
            elif name == "set_values":
                row.set_values(list(op[1]), start=op[2])
            elif name == "extend_cells":
                row.extend_cells([Cell(v, repeated=k) for v, k in op[1]])
            elif name == "clear":
                row.clear()
            elif name == "rstrip":
                row.rstrip()
            elif name == "force_width":
                row.force_width(op[1])
            elif name == "read_minimized_width":
                row.minimized_width
                row.last_cell()
            elif name == "cell_repeated":
                c = row.get_cell(op[1], clone=False)
                c.repeated = op[2]
            elif name == "read_get_cell":
                row.get_cell(op[1], clone=False)
            elif name == "read_traverse":
                list(row.traverse())
            else:
                raise AssertionError(name)
        except Exception as e:  # in-domain call that raises = divergence
            st.exc = f"{type(e).__name__}"
        # model
        if name == "set_value":
            m.set_cell(op[1], op[2], 1)
        elif name == "set_cell":
            m.set_cell(op[1], op[2], op[3])
        elif name == "insert_cell":
            m.insert_cell(op[1], op[2], op[3])
        elif name == "append_cell":
            m.append_cell(op[1], op[2])
        elif name == "delete_cell":
            m.delete_cell(op[1])
        elif name in ("set_cells", "set_cells_noclone"):
            m.set_cells([tuple(p) for p in op[1]], op[2])
        elif name == "set_values":
            m.set_cells([(v, 1) for v in op[1]], op[2])
        elif name == "extend_cells":
            m.extend_cells([tuple(p) for p in op[1]])
        elif name == "clear":
            m.clear()
        elif name == "rstrip":
            m.rstrip()
        elif name == "force_width":
            # documented: the repeat count of the last cell, when it is an empty repeated one, is
            # reduced so that the row is not wider than asked (as far as that one run allows)
            last = pre["last_run"]
            W = len(m.cells)
            if last is not None and last[0] is None and last[1] > 1 and W > op[1]:
                del m.cells[max(op[1], W - last[1] + 1):]
        elif name == "cell_repeated":
            start, old = pre["run"]
            m.set_run_length(start, old, op[2])

    # ------------------------------------------------------------ observe
    @staticmethod
    def _starts(W):
        return sorted({1, max(W - 1, 0), W, W + 1})

    @staticmethod
    def _ranges(W):
        out = []
        for a in sorted({0, 1, max(W - 2, 0)}):
            for b in sorted({a, a + 1, max(W - 1, 0), W + 1}):
                if b >= a:
                    out.append((a, b))
        return out

    def obs_model(self, m):
        W = m.width
        o = {
            "width": W,
            "values": m.values(),
            "value_at": [m.value(x) for x in range(W + 2)],
            "ranges": [m.values(a, b) for a, b in self._ranges(W)],
            "from": [m.values(a, None) for a in self._starts(W)],
            "cells": m.values(),
            "getcell": [m.value(x) for x in range(W + 2)],
        }
        return o

    def obs_impl(self, row, W):
        o = {}

        def g(name, f):
            try:
                o[name] = f()
            except Exception as e:
                o[name] = f"raises:{type(e).__name__}"

        g("width", lambda: row.width)
        g("values", lambda: row.get_values())
        g("value_at", lambda: [row.get_value(x) for x in range(W + 2)])
        g("ranges", lambda: [row.get_values((a, b)) for a, b in self._ranges(W)])
        g("from", lambda: [[c.get_value() for c in row.traverse(start=a)] for a in self._starts(W)])
        g("cells", lambda: [c.get_value() for c in row.traverse()])
        g("getcell", lambda: [row.get_cell(x).get_value() for x in range(W + 2)])
        return o

    def obs_reader(self, elem, W):
        vals = TR.expand_row(elem)
        m = RowModel(vals)
        return self.obs_model(m)

    @staticmethod
    def _first_diff(exp, act):
        for k in exp:
            if exp[k] != act.get(k):
                return k, exp[k], act.get(k)
        return None

    def check(self, st, prop, op):
        fails = []
        m, row = st.model, st.row
        pre = st.pre if op is not None else None
        elem = row._Element__element
        site = op[0] if op else "seed"
        cls = self._cls(pre)

        def fail(oracle, exp, act, symptom):
            st.diverged = True
            fails.append(Failure(oracle, exp, act, f"site=Row.{site}; class={cls}; symptom={symptom}"))

        W = m.width
        # ---- C01: model equivalence (also used as the pruning oracle everywhere)
        c01 = None
        if st.exc:
            c01 = ("raises", None, st.exc, f"raises:{st.exc}")
        else:
            em = self.obs_model(m)
            ei = self.obs_impl(row, W)
            d = self._first_diff(em, ei)
            if d:
                c01 = (f"read:{d[0]}", d[1], d[2], self._symptom_c01(d, m, elem))
        if c01:
            if prop == "C01":
                fail(c01[0], c01[1], c01[2], c01[3])
            else:
                st.diverged = True  # pruned, reported by C01
        if prop == "C02":
            # live == fresh parse == independent reader, cache coherence
            live = self.obs_impl(row, W)
            try:
                fresh = Element.from_tag(row.serialize())
                fo = self.obs_impl(fresh, W)
            except Exception as e:
                fo = {"error": type(e).__name__}
            ro = self.obs_reader(TR.parse_fragment(row.serialize()), W)
            d = self._first_diff(fo, live)
            if d:
                fail(f"live-vs-fresh:{d[0]}", d[1], d[2], f"live!=fresh:{d[0]}")
            d = self._first_diff(ro, live)
            if d:
                fail(f"live-vs-reader:{d[0]}", d[1], d[2], f"live!=reader:{d[0]}")
            xmap = TR.run_map(TR.row_cells(elem), TR.REP_C)
            if list(row._rmap) != xmap:
                fail("rmap", xmap, list(row._rmap), "map!=xml")
            cells = TR.row_cells(elem)
            for idx, w in row._indexes["_rmap"].items():
                ok = idx < len(cells) and w._Element__element is cells[idx]
                if not ok:
                    fail("cached-wrapper", idx, "stale", "stale-cached-cell")
                    break
        if prop == "C07":
            for oracle, exp, act in self.structure(elem):
                fail(oracle, exp, act, oracle)
            if not st.exc and row.width != sum(k for _, k in TR.row_runs(elem)):
                fail("width!=sum(repeats)", sum(k for _, k in TR.row_runs(elem)), row.width, "width!=sum")
        return fails

    @staticmethod
    def structure(elem):
        """Structural rules of a table:table-row (C07)."""
        out = []
        for c in elem:
            if c.tag not in (TR.CELL, TR.COVERED):
                out.append(("row-child-not-cell", "cell", str(c.tag)))
            v = c.get(TR.REP_C)
            if v is not None:
                try:
                    ok = int(v) >= 2 and str(int(v)) == v
                except ValueError:
                    ok = False
                if not ok:
                    out.append(("bad-repeat-attribute", ">=2 or absent", v))
        v = elem.get(TR.REP_R)
        if v is not None:
            try:
                ok = int(v) >= 2 and str(int(v)) == v
            except ValueError:
                ok = False
            if not ok:
                out.append(("bad-repeat-attribute", ">=2 or absent", v))
        return out

    @staticmethod
    def _cls(pre):
        if not pre:
            return "-"
        parts = []
        for k in ("pos", "overlap"):
            if k in pre:
                parts.append(f"{k}={pre[k]}")
        parts.append("k>1" if pre.get("k", 1) > 1 else "k=1")
        return ",".join(parts)

    @staticmethod
    def _symptom_c01(d, m, elem):
        key, exp, act = d
        xml_w = sum(k for _, k in TR.row_runs(elem))
        if isinstance(act, str) and act.startswith("raises:"):
            return f"{key}:{act}"
        if key == "width":
            if xml_w == exp:
                return "map-width-wrong(xml-ok)"
            return "width-wrong"
        return f"read-differs:{key}"

    # ------------------------------------------------------------ key etc.
    def key(self, st):
        row = st.row
        xml = etree.tostring(row._Element__element)
        cached = tuple(sorted(row._indexes["_rmap"].keys()))
        return digest(xml, tuple(row._rmap), cached, st.model.canon())

    def outcome(self, st):
        return (st.model.canon(), st.exc)

    def expandable(self, st):
        return not st.diverged and st.model.width <= 5

    def describe(self, st):
        return {"xml": st.row.serialize(), "model": list(st.model.cells)}
