"""Paragraph family (shared by C09, C11, C16): every sequence of <= n inline items,
built from raw XML, kept only when already in ODF white-space normal form."""

from __future__ import annotations

import itertools

from lxml import etree

from odfdo import Element

from ..models import odfws

ITEMS = {
    "ab": "ab",
    "a b": "a b",
    "ba": "ba",
    "s2": '<text:s text:c="2"/>',
    "tab": "<text:tab/>",
    "lb": "<text:line-break/>",
    "span": '<text:span text:style-name="T1">cd</text:span>',
    "span2": '<text:span text:style-name="T1">a<text:span text:style-name="T2">e</text:span>b</text:span>',
    "link": '<text:a xlink:href="http://x/" xlink:type="simple">fa</text:a>',
    "bm": '<text:bookmark text:name="bm0"/>',
    "spanws": '<text:span text:style-name="T1">a<text:s/> b</text:span>',
    "sp": " ",  # a text run made of one blank only (between two inline elements)
}

SMALL = ["ab", "a b", "s2", "tab", "span", "span2", "link", "bm"]
FULL = ["ab", "a b", "ba", "s2", "tab", "lb", "span", "span2", "link", "bm", "spanws"]
FULL_SP = FULL + ["sp"]


def para_xml(items, tag="text:p"):
    return f"<{tag}>" + "".join(ITEMS[i] for i in items) + f"</{tag}>"


def family(maxlen=3, alphabet=FULL):
    """List of item tuples whose paragraph is in white-space normal form and
    where no two adjacent items are plain strings (they would merge into one node)."""
    out = []
    plain = {"ab", "a b", "ba", "sp"}
    for n in range(1, maxlen + 1):
        for tup in itertools.product(alphabet, repeat=n):
            if any(a in plain and b in plain for a, b in zip(tup, tup[1:])):
                continue
            p = Element.from_tag(para_xml(tup))
            if not odfws.is_normal_form(p._Element__element):
                continue
            out.append(tup)
    return out


def build(items, tag="text:p"):
    return Element.from_tag(para_xml(items, tag))


# ---------------------------------------------------------------- independent walks
def text_nodes(root, skip=odfws.SKIP, include_skipped=False):
    """Document-order list of dicts: {'holder': lxml element, 'is_tail': bool,
    'text': str, 'start': offset of the node in the projection, 'in_skip': bool}.
    With include_skipped the text nodes inside note / annotation bodies are listed
    too (start = None): odfdo's own searches see them."""
    out = []
    pos = 0

    def walk(e, skipping):
        nonlocal pos
        if e.text:
            out.append({"holder": e, "is_tail": False, "text": e.text, "start": None if skipping else pos, "in_skip": bool(skipping), "skip_tag": skipping or None})
            if not skipping:
                pos += len(e.text)
        for ch in e:
            if not isinstance(ch.tag, str):
                continue
            if ch.tag == odfws.S:
                try:
                    n = int(ch.get("{%s}c" % odfws.TEXT, "1"))
                except ValueError:
                    n = 1
                if not skipping:
                    pos += n
            elif ch.tag in (odfws.TAB, odfws.LB):
                if not skipping:
                    pos += 1
            elif ch.tag in skip:
                if include_skipped:
                    walk(ch, skipping or ch.tag)
            else:
                walk(ch, skipping)
            if ch.tail:
                out.append({"holder": ch, "is_tail": True, "text": ch.tail, "start": None if skipping else pos, "in_skip": bool(skipping), "skip_tag": skipping or None})
                if not skipping:
                    pos += len(ch.tail)

    walk(root, None)
    return out


def offset_of(root, target, skip=odfws.SKIP):
    """Offset in the projection at which the element `target` sits (text before it)."""
    pos = 0
    found = None

    def walk(e):
        nonlocal pos, found
        if e.text:
            pos += len(e.text)
        for ch in e:
            if found is not None:
                return
            if ch is target:
                found = pos
                return
            if not isinstance(ch.tag, str):
                continue
            if ch.tag == odfws.S:
                try:
                    n = int(ch.get("{%s}c" % odfws.TEXT, "1"))
                except ValueError:
                    n = 1
                pos += n
            elif ch.tag in (odfws.TAB, odfws.LB):
                pos += 1
            elif ch.tag in skip:
                pass
            else:
                walk(ch)
                if found is not None:
                    return
            if ch.tail:
                pos += len(ch.tail)

    walk(root)
    return found


def skeleton(root):
    """Element structure without character data."""
    def sk(e):
        return (e.tag, tuple(sorted(e.attrib.items())), tuple(sk(c) for c in e if isinstance(c.tag, str)))
    return sk(root)


def ser(p):
    return etree.tostring(p._Element__element, encoding="unicode")
