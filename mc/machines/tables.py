"""Table machine: one odfdo Table against GridModel.

Serves C01 (grid equivalence), C02 (live == fresh parse == independent reader,
cache coherence, save/reload), C07 (structural validity of the table XML).
"""

from __future__ import annotations

import io
import itertools

from lxml import etree

from odfdo import Cell, Column, Document, Element, Row, Table

from ..engine import Failure, digest
from ..models import tableread as TR
from ..models.grid import GridModel, RowModel, norm_index
from .rows import cell_xml, compositions, encodings, row_xml


def columns_xml(col_runs, first=0):
    """Every declaration carries its own style name (co0, co1, ...): columns are told apart by it."""
    out = []
    for i, k in enumerate(col_runs):
        rep = f' table:number-columns-repeated="{k}"' if k > 1 else ""
        out.append(f'<table:table-column table:style-name="co{first + i}"{rep}/>')
    return "".join(out)


def table_xml(spec):
    rows = "".join(row_xml([tuple(p) for p in r["enc"]], r.get("rep", 1)) for r in spec["rows"])
    cols = columns_xml(spec["cols"])
    wrap = spec.get("wrap")
    if spec.get("colwrap") == "first":
        # first column declaration(s) inside a table:table-columns group, the rest direct
        cols = f"<table:table-columns>{columns_xml(spec['cols'][:1])}</table:table-columns>{columns_xml(spec['cols'][1:], 1)}"
    elif spec.get("colwrap") == "last":
        cols = f"{columns_xml(spec['cols'][:-1])}<table:table-header-columns>{columns_xml(spec['cols'][-1:], len(spec['cols']) - 1)}</table:table-header-columns>"
    if wrap == "lo":  # LibreOffice-like wrappers
        hdr = "".join(row_xml([tuple(p) for p in r["enc"]], r.get("rep", 1)) for r in spec["rows"][:1])
        rest = "".join(row_xml([tuple(p) for p in r["enc"]], r.get("rep", 1)) for r in spec["rows"][1:])
        rows = f"<table:table-header-rows>{hdr}</table:table-header-rows>{rest}"
    return f'<table:table table:name="T">{cols}{rows}</table:table>'


def spec_matrix(spec):
    rows = []
    for r in spec["rows"]:
        vals = [v for v, k in r["enc"] for _ in range(k)]
        for _ in range(r.get("rep", 1)):
            rows.append(list(vals))
    return rows


def grid_seed_family():
    """All encodings of the logical grid [[1,1,2],[1,1,2],[3,-,-]] (DESIGN 2.4 b)."""
    seeds = []
    top = encodings([1, 1, 2])  # 2 encodings
    bottoms = [[(3, 1)], [(3, 1), (None, 1)], [(3, 1), (None, 2)], [(3, 1), (None, 1), (None, 1)]]
    colruns = [[3], [1, 2], [2, 1], [1, 1, 1]]
    row_layouts = []
    for e in top:
        row_layouts.append([{"enc": e, "rep": 2}])
    for e1 in top:
        for e2 in top:
            row_layouts.append([{"enc": e1, "rep": 1}, {"enc": e2, "rep": 1}])
    for rl in row_layouts:
        for b in bottoms:
            for cr in colruns:
                rows = [dict(enc=[list(p) for p in r["enc"]], rep=r["rep"]) for r in rl]
                rows.append({"enc": [list(p) for p in b], "rep": 1})
                seeds.append({"kind": "xml", "rows": rows, "cols": cr})
    return seeds


REPRESENTATIVE = [
    # (rows merged?, top encoding idx, bottom idx, col idx)
]


class State:
    __slots__ = ("table", "model", "exc", "diverged", "pre", "doc", "depth", "sr")


class TableMachine:
    name = "table"

    def __init__(self, cfg=None):
        self.cfg = cfg or {}
        fam = grid_seed_family()
        self.seed_list = list(fam)
        self.n_family = len(fam)
        # other shapes
        extra = [
            {"kind": "ctor", "width": None, "height": None},
            {"kind": "ctor", "width": 2, "height": 2},
            # repeated last row of empties, repeated single column declaration
            {"kind": "xml", "rows": [{"enc": [[1, 3]], "rep": 3}], "cols": [3]},
            # middle run: row run of 3, cell run of 3 in the middle
            {"kind": "xml", "rows": [{"enc": [[4, 1], [5, 3], [6, 1]], "rep": 1}, {"enc": [[7, 1], [None, 4]], "rep": 3}, {"enc": [[8, 5]], "rep": 1}], "cols": [1, 3, 1]},
            # ragged: rows shorter than the declared width
            {"kind": "xml", "rows": [{"enc": [[1, 1]], "rep": 2}, {"enc": [[2, 2], [3, 1]], "rep": 1}, {"enc": [], "rep": 1}], "cols": [4]},
            # LibreOffice-like header rows wrapper
            {"kind": "xml", "rows": [{"enc": [[1, 2], [2, 1]], "rep": 1}, {"enc": [[1, 2], [2, 1]], "rep": 1}, {"enc": [[3, 1], [None, 2]], "rep": 2}], "cols": [3], "wrap": "lo"},
            # column declarations inside group elements
            {"kind": "xml", "rows": [{"enc": [[1, 2], [2, 1]], "rep": 2}, {"enc": [[3, 1], [None, 2]], "rep": 1}], "cols": [2, 1], "colwrap": "first"},
            {"kind": "xml", "rows": [{"enc": [[1, 2], [2, 1]], "rep": 2}, {"enc": [[3, 1], [None, 2]], "rep": 1}], "cols": [1, 2], "colwrap": "last"},
        ]
        self.seed_list.extend(extra)
        self.n_extra = len(extra)
        # the same shapes with every wrapper cache populated first
        self.preread = []
        for i in (0, 47, 76):
            self.preread.append({**fam[i], "preread": True})
        for e in (extra[3], extra[4], extra[5]):
            self.preread.append({**e, "preread": True})
        self.file_seeds = []
        # sheets of bounded size only (styled_table.ods is 65536 rows high, test_col_cell.ods 16384 x 1048576
        # once expanded: no list-of-lists model of those)
        for fn, idx in (("simple_table.ods", 0), ("minimal_hidden.ods", 0), ("table.odt", 0)):
            self.seed_list.append({"kind": "file", "file": fn, "table": idx})
        self.n_files = 3
        self.seed_list.extend(self.preread)
        # save + reload after a step is judged from every seed (thorough) or from the representative ones (quick)
        self._sr_all = self.cfg.get("save_reload_seeds", "all") == "all"
        self._sr_seeds = [] if self._sr_all else self.select_seeds(self.cfg["save_reload_seeds"])

    def select_seeds(self, which):
        n = len(self.seed_list)
        if which == "all":
            return list(range(n - len(self.preread)))
        if which == "xmlctor":
            return list(range(self.n_family + self.n_extra))
        if which == "rep":
            # 8 representative family members + the extra shapes
            fam = self.n_family
            picks = sorted({0, 5, 17, 30, 47, 58, 76, fam - 1})
            return [i for i in picks if i < fam] + list(range(fam, fam + self.n_extra))
        if which == "rep6":
            fam = self.n_family
            return [0, 47, 76] + [fam + 1, fam + 3, fam + 5]
        if which == "rep3":
            return [0, 47, self.n_family + 3]
        if which == "files":
            return list(range(self.n_family + self.n_extra, self.n_family + self.n_extra + self.n_files))
        if which == "preread":
            return list(range(n - len(self.preread), n))
        raise ValueError(which)

    # ------------------------------------------------------------ build
    def new(self, seed):
        st = State()
        st.exc = None
        st.pre = None
        st.diverged = False
        st.doc = None
        st.depth = 0
        st.sr = self._sr_all or any(seed == self.seed_list[i] for i in self._sr_seeds)
        if seed["kind"] == "xml":
            st.table = Element.from_tag(table_xml(seed))
            mat = spec_matrix(seed)
            st.model = GridModel(mat, sum(seed["cols"]))
            if seed.get("preread"):
                # every row / cell / column wrapper cached before the history starts
                self._apply_impl(st.table, ("read_all",))
                self._apply_impl(st.table, ("read_columns",))
        elif seed["kind"] == "ctor":
            w, h = seed["width"], seed["height"]
            if w is None:
                st.table = Table("T")
                st.model = GridModel([], 0)
            else:
                st.table = Table("T", width=w, height=h)
                st.model = GridModel([[None] * w for _ in range(h)], w)
        elif seed["kind"] == "file":
            import os

            doc = Document(os.path.join(os.environ.get("ODFDO_REPO", "/repo"), "tests/samples", seed["file"]))
            st.doc = doc
            st.table = doc.body.get_tables()[seed["table"]]
            elem = st.table._Element__element
            st.model = GridModel(TR.table_matrix(elem), TR.table_width(elem))
        return st

    # ------------------------------------------------------------ alphabet
    def enabled(self, st, alphabet):
        W, H = st.model.width, st.model.height
        full = alphabet in ("full",)
        mini = alphabet == "mini"
        if full:
            xs = sorted({0, 1, max(W - 1, 0), W, W + 1}) + [-1, -2]
            ys = sorted({0, 1, max(H - 1, 0), H, H + 1}) + [-1, -2]
            ks = (1, 2, 3)
        elif mini:
            xs = sorted({0, max(W - 1, 0), W})
            ys = sorted({0, max(H - 1, 0), H})
            ks = (1, 2)
        else:  # sub
            xs = sorted({0, 1, max(W - 1, 0), W})
            ys = sorted({0, 1, max(H - 1, 0), H})
            ks = (1, 2)
        ops = []
        for y in ys:
            for x in xs:
                ops.append(("set_value", x, y, 7))
                if not mini or (x, y) in ((0, 0), (xs[-1], ys[-1])):
                    for k in ks[1:]:
                        ops.append(("set_cell", x, y, 8, k))
                ops.append(("insert_cell", x, y, 9, 1))
                if full or (x == 0):
                    ops.append(("insert_cell", x, y, 9, 2))
                ops.append(("delete_cell", x, y))
        for y in ys:
            for k in ks:
                ops.append(("append_cell", y, 7, k))
            for k in ks:
                ops.append(("set_row", y, [(8, 1), (9, 1)], k))
                ops.append(("insert_row", y, [(9, 2)], k))
            ops.append(("delete_row", y))
            ops.append(("set_row_values", y, [7, None, 8, 9]))
            if not mini:
                ops.append(("set_row", y, None, 1))  # row=None -> empty row
                ops.append(("insert_row", y, None, 1))
                ops.append(("set_row_cells", y, [(8, 2), (9, 1)]))
        for k in ks:
            ops.append(("append_row", [(7, 1), (8, 1)], k))
        ops.append(("append_row", None, 1))
        # Table.append(Row | Column) dispatches to append_row / append_column
        ops.append(("append_row", [(7, 1), (8, 2)], 2, "generic"))
        ops.append(("append_column", 2, "generic"))
        for x in xs:
            for k in ks:
                ops.append(("insert_column", x, k))
            ops.append(("delete_column", x))
            if not mini:
                ops.append(("set_column", x, 2))
            if 0 <= x < max(W, 1) + 1 and H > 0:
                ops.append(("set_column_values", x, 7))
                if not mini:
                    ops.append(("set_column_cells", x, 8, 2))
        for k in ks:
            ops.append(("append_column", k))
        ops.append(("rstrip",))
        ops.append(("set_values", [[7, 8], [9, 7]], 0, 0))
        ops.append(("set_values", [[7, 8], [], [9]], 1, 1))
        ops.append(("set_cells", [[(8, 2)], [(9, 1), (7, 2)]], 0, max(H - 1, 0)))
        # the same calls storing the given objects without copying them (clone=False)
        ops.append(("set_cells", [[(8, 2)], [(9, 1), (7, 2)]], 0, max(H - 1, 0), "noclone"))
        ops.append(("set_cells", [[(8, 1), (9, 1)]], 1, 0, "noclone"))
        ops.append(("set_cell", 0, 0, 8, 2, "noclone"))
        ops.append(("set_cell", xs[-1] if not full else W, ys[-1] if not full else max(H - 1, 0), 8, 1, "noclone"))
        ops.append(("set_row", 0, [(8, 1), (9, 1)], 2, "noclone"))
        ops.append(("insert_row", max(H - 1, 0), [(9, 2)], 1, "noclone"))
        ops.append(("append_row", [(7, 1), (8, 1)], 2, "noclone"))
        ops.append(("extend_rows", [([(7, 1)], 2), ([(8, 3), (9, 2)], 1)]))
        if not mini:
            ops.append(("set_values", [[7, 8, 9, 7]], 0, H))
            ops.append(("set_cells", [[(8, 3), (9, 1)]], 1, 0))
            ops.append(("clear",))
        # repeated setters on bound (clone=False) objects
        if H > 0:
            for k in ks:
                ops.append(("row_repeated", 0, k))
                if not mini and H > 1:
                    ops.append(("row_repeated", H - 1, k))
            if W > 0:
                ops.append(("cell_repeated", 0, 0, 2))
        # the Row API on a live row (get_row(y, clone=False)) that is stored on its own (not a repeated run)
        # and stays within the table width: the table must keep answering from its XML
        elem0 = st.table._Element__element
        y0 = 0
        for r_ in TR.table_rows(elem0):
            k_ = TR._rep(r_, TR.REP_R)
            if k_ == 1:
                ops.append(("live_row", y0, "clear"))
                ops.append(("live_row", y0, "set_values", [7, None, 8][: max(W, 1)]))
                if not mini:
                    ops.append(("live_row", y0, "set_value", 0, 9))
                    ops.append(("live_row", y0, "delete_cell", 0))
                break
            y0 += k_
        # cache-populating reads (C02 deviations; harmless for the model)
        ops.append(("read_row", 0))
        ops.append(("read_cell", 0, 0))
        ops.append(("read_all",))
        if not mini:
            ops.append(("read_row", max(H - 1, 0)))
            ops.append(("read_columns",))
        return ops

    # ------------------------------------------------------------ pre-state info
    def pre_info(self, st, op):
        noclone = op[-1] == "noclone"
        if noclone:
            op = op[:-1]
        t = st.table
        elem = t._Element__element
        rows = TR.table_rows(elem)
        row_runs = [TR._rep(r, TR.REP_R) for r in rows]
        W, H = st.model.width, st.model.height
        info = {"W": W, "H": H}
        name = op[0]
        info["rowrep"] = max(row_runs, default=0) > 1
        info["cellrep"] = any(k > 1 for r in rows for _, k in TR.row_runs(r))
        info["colrep"] = any(TR._rep(c, TR.REP_C) > 1 for c in TR.table_columns(elem))
        info["wrapped"] = any(ch.tag in TR.ROW_WRAPPERS for ch in elem)
        info["cached"] = bool(t._indexes["_tmap"]) or bool(t._indexes["_cmap"])
        info["ragged"] = any(len(r) < W for r in st.model.rows)
        y = None
        x = None
        k = 1
        if name in ("set_value", "set_cell", "insert_cell", "delete_cell", "cell_repeated", "read_cell"):
            x, y = op[1], op[2]
            if name in ("set_cell", "insert_cell"):
                k = op[4]
            if name == "cell_repeated":
                k = op[3]
        elif name in ("append_cell", "set_row", "insert_row", "delete_row", "set_row_values", "set_row_cells", "row_repeated", "read_row"):
            y = op[1]
            if name in ("append_cell",):
                k = op[3]
            elif name in ("set_row", "insert_row"):
                k = op[3]
            elif name == "row_repeated":
                k = op[2]
        elif name in ("set_values", "set_cells"):
            x, y = op[2], op[3]
            if name == "set_cells":
                k = max(kk for row in op[1] for _, kk in row)
        elif name in ("insert_column", "delete_column", "set_column", "set_column_values", "set_column_cells"):
            x = op[1]
            if name == "insert_column":
                k = op[2]
            elif name == "set_column":
                k = op[2]
            elif name == "set_column_cells":
                k = op[3]
        elif name in ("append_row",):
            k = op[2]
        elif name == "append_column":
            k = op[1]
        info["k"] = k
        if y is not None:
            yy = norm_index(y, H)
            if yy == H:
                info["ypos"] = "edge"
            elif yy > H:
                info["ypos"] = "beyond"
            else:
                start = 0
                for ri, rk in enumerate(row_runs):
                    if yy < start + rk:
                        info["ypos"] = "single" if rk == 1 else ("first" if yy == start else ("last" if yy == start + rk - 1 else "middle"))
                        info["rowrun"] = (start, rk)
                        info["in_wrapper"] = rows[ri].getparent() is not elem
                        # cell position inside that XML row
                        if x is not None:
                            xx = norm_index(x, W)
                            cruns = TR.row_runs(rows[ri])
                            rw = sum(kk for _, kk in cruns)
                            if xx >= rw:
                                info["xpos"] = "edge" if xx == rw else "beyond"
                            else:
                                s2 = 0
                                for _, ck in cruns:
                                    if xx < s2 + ck:
                                        info["xpos"] = "single" if ck == 1 else ("first" if xx == s2 else ("last" if xx == s2 + ck - 1 else "middle"))
                                        info["cellrun"] = (s2, ck)
                                        break
                                    s2 += ck
                        break
                    start += rk
                if k > 1 and name in ("set_row",) and "rowrun" in info:
                    s0, rk0 = info["rowrun"]
                    info["overlap"] = "none" if yy + k <= s0 + rk0 else ("past-end" if yy + k > H else "next-runs")
        elif x is not None:
            xx = norm_index(x, W)
            info["xcol"] = "edge" if xx == W else ("beyond" if xx > W else "in")
        return info

    def nontrivial(self, st, op):
        pre = st.pre
        if not pre:
            return False
        return bool(pre.get("rowrep") or pre.get("cellrep") or pre.get("colrep") or pre.get("k", 1) > 1 or pre.get("cached"))

    # ------------------------------------------------------------ step
    @staticmethod
    def _cells(items):
        return [Cell(v, repeated=k) for v, k in items]

    @staticmethod
    def _row(items, k=1):
        r = Row()
        for v, kk in items:
            r.append_cell(Cell(v, repeated=kk), clone=False)
        if k > 1:
            r.repeated = k
        return r

    def step(self, st, op):
        t, m = st.table, st.model
        name = op[0]
        st.exc = None
        pre = st.pre = self.pre_info(st, op)
        st.depth += 1
        try:
            self._apply_impl(t, op)
        except Exception as e:
            st.exc = type(e).__name__
        self._apply_model(m, op, pre)

    def _apply_impl(self, t, op):
        # a trailing "noclone": the object handed over is stored as it is (clone=False)
        kw = {}
        if op[-1] == "noclone":
            op = op[:-1]
            kw = {"clone": False}
        name = op[0]
        if name == "set_value":
            t.set_value((op[1], op[2]), op[3])
        elif name == "set_cell":
            t.set_cell((op[1], op[2]), Cell(op[3], repeated=op[4]), **kw)
        elif name == "insert_cell":
            t.insert_cell((op[1], op[2]), Cell(op[3], repeated=op[4]))
        elif name == "delete_cell":
            t.delete_cell((op[1], op[2]))
        elif name == "append_cell":
            t.append_cell(op[1], Cell(op[2], repeated=op[3]))
        elif name == "set_row":
            t.set_row(op[1], None if op[2] is None else self._row(op[2], op[3]), **kw)
        elif name == "insert_row":
            t.insert_row(op[1], None if op[2] is None else self._row(op[2], op[3]), **kw)
        elif name == "append_row":
            if len(op) > 3:
                t.append(self._row(op[1], op[2]))
            else:
                t.append_row(None if op[1] is None else self._row(op[1], op[2]), **kw)
        elif name == "delete_row":
            t.delete_row(op[1])
        elif name == "set_row_values":
            t.set_row_values(op[1], list(op[2]))
        elif name == "set_row_cells":
            t.set_row_cells(op[1], self._cells(op[2]))
        elif name == "insert_column":
            t.insert_column(op[1], Column(repeated=op[2]))
        elif name == "append_column":
            if len(op) > 2:
                t.append(Column(repeated=op[1]))
            else:
                t.append_column(Column(repeated=op[1]))
        elif name == "delete_column":
            t.delete_column(op[1])
        elif name == "set_column":
            t.set_column(op[1], Column(repeated=op[2]))
        elif name == "set_column_values":
            t.set_column_values(op[1], [op[2]] * t.height)
        elif name == "set_column_cells":
            t.set_column_cells(op[1], [Cell(op[2], repeated=op[3]) for _ in range(t.height)])
        elif name == "set_values":
            t.set_values([list(r) for r in op[1]], coord=(op[2], op[3]))
        elif name == "set_cells":
            t.set_cells([self._cells(r) for r in op[1]], coord=(op[2], op[3]), **kw)
        elif name == "extend_rows":
            t.extend_rows([self._row(items, k) for items, k in op[1]])
        elif name == "clear":
            t.clear()
        elif name == "rstrip":
            t.rstrip()
        elif name == "row_repeated":
            r = t.get_row(op[1], clone=False)
            r.repeated = op[2]
        elif name == "cell_repeated":
            c = t.get_cell((op[1], op[2]), clone=False)
            c.repeated = op[3]
        elif name == "read_row":
            t.get_row(op[1], clone=False)
        elif name == "read_cell":
            t.get_cell((op[1], op[2]), clone=False)
        elif name == "live_row":
            row = t.get_row(op[1], clone=False)
            if op[2] == "clear":
                row.clear()
            elif op[2] == "set_values":
                row.set_values(list(op[3]))
            elif op[2] == "set_value":
                row.set_value(op[3], op[4])
            elif op[2] == "delete_cell":
                row.delete_cell(op[3])
        elif name == "read_all":
            for r in t.traverse():
                list(r.traverse())
            for y in range(t.height):
                rr = t.get_row(y, clone=False)
                for x in range(rr.width):
                    rr.get_cell(x, clone=False)
        elif name == "read_columns":
            list(t.traverse_columns())
            t.get_column(0)
        else:
            raise AssertionError(name)

    def _apply_model(self, m, op, pre):
        if op[-1] == "noclone":
            op = op[:-1]
        name = op[0]
        if name == "set_value":
            m.set_cell(op[1], op[2], op[3], 1)
        elif name == "set_cell":
            m.set_cell(op[1], op[2], op[3], op[4])
        elif name == "insert_cell":
            m.insert_cell(op[1], op[2], op[3], op[4])
        elif name == "delete_cell":
            m.delete_cell(op[1], op[2])
        elif name == "append_cell":
            m.append_cell(op[1], op[2], op[3])
        elif name == "set_row":
            cells = [] if op[2] is None else [v for v, k in op[2] for _ in range(k)]
            m.set_row(op[1], cells, op[3])
        elif name == "insert_row":
            cells = [] if op[2] is None else [v for v, k in op[2] for _ in range(k)]
            m.insert_row(op[1], cells, op[3])
        elif name == "append_row":
            cells = [] if op[1] is None else [v for v, k in op[1] for _ in range(k)]
            m.append_row(cells, op[2])
        elif name == "delete_row":
            m.delete_row(op[1])
        elif name == "set_row_values":
            m.set_row(op[1], list(op[2]), 1)
        elif name == "set_row_cells":
            m.set_row(op[1], [v for v, k in op[2] for _ in range(k)], 1)
        elif name == "insert_column":
            m.insert_column(op[1], op[2])
        elif name == "append_column":
            m.append_column(op[1])
        elif name == "delete_column":
            m.delete_column(op[1])
        elif name == "set_column":
            m.set_column(op[1], op[2])
        elif name == "set_column_values":
            m.set_column_cells(op[1], [(op[2], 1)] * m.height)
        elif name == "set_column_cells":
            m.set_column_cells(op[1], [(op[2], op[3])] * m.height)
        elif name == "set_values":
            m.set_block(op[2], op[3], [[(v, 1) for v in r] for r in op[1]])
        elif name == "set_cells":
            m.set_block(op[2], op[3], [[tuple(p) for p in r] for r in op[1]])
        elif name == "extend_rows":
            m.extend_rows([([v for v, kk in items for _ in range(kk)], k) for items, k in op[1]])
        elif name == "clear":
            m.clear()
        elif name == "rstrip":
            m.rstrip()
        elif name == "row_repeated":
            if "rowrun" in pre:
                s, old = pre["rowrun"]
                m.set_row_run_length(s, old, op[2])
        elif name == "live_row":
            r = m.rows[op[1]]
            if op[2] == "clear":
                del r[:]
            elif op[2] == "set_values":
                vals = list(op[3])
                r[0 : len(vals)] = vals
            elif op[2] == "set_value":
                if op[3] < len(r):
                    r[op[3]] = op[4]
                else:
                    r.extend([None] * (op[3] - len(r)) + [op[4]])
            elif op[2] == "delete_cell":
                if op[3] < len(r):
                    del r[op[3]]
        elif name == "cell_repeated":
            if "rowrun" in pre and "cellrun" in pre:
                s, old = pre["rowrun"]
                cs, cold = pre["cellrun"]
                for yy in range(s, s + old):
                    m.set_cell_run_length(yy, cs, cold, op[3])
                m.ncols = max([m.ncols] + [len(r) for r in m.rows])

    # ------------------------------------------------------------ observation
    @staticmethod
    def _areas(W, H):
        return [
            (0, 0, W, H),
            (1, 1, 1, 1),
            (0, max(H - 1, 0), W + 1, H + 1),
            (max(W - 1, 0), 0, max(W - 1, 0), H),
            (1, 0, 2, 1),
        ]

    def obs_model(self, m):
        W, H = m.width, m.height
        return {
            "size": (W, H),
            "values": m.matrix(),
            "value_at": [[m.value(x, y) for x in range(W + 2)] for y in range(H + 2)],
            "row_values": [m.row_values(y) for y in range(H + 1)],
            "row_width": [len(m.rows[y]) for y in range(H)],
            "row_get": [list(m.rows[y]) for y in range(H)],
            "col_values": [m.column_values(x) for x in range(W + 1)],
            "areas": [m.area(*a) for a in self._areas(W, H)],
            "traverse": [list(r) for r in m.rows],
            "cell_diag": [m.value(i, i) for i in range(max(W, H) + 1)],
        }

    def obs_impl(self, t, W, H):
        o = {}

        def g(name, f):
            try:
                o[name] = f()
            except Exception as e:
                o[name] = f"raises:{type(e).__name__}"

        g("size", lambda: tuple(t.size))
        g("values", lambda: t.get_values())
        g("value_at", lambda: [[t.get_value((x, y)) for x in range(W + 2)] for y in range(H + 2)])
        g("row_values", lambda: [t.get_row_values(y) for y in range(H + 1)])
        g("row_width", lambda: [t.get_row(y).width for y in range(H)])
        g("row_get", lambda: [t.get_row(y).get_values() for y in range(H)])
        g("col_values", lambda: [t.get_column_values(x) for x in range(W + 1)])
        g("areas", lambda: [t.get_values(a) for a in self._areas(W, H)])
        g("traverse", lambda: [[c.get_value() for c in r.traverse()] for r in t.traverse()])
        g("cell_diag", lambda: [t.get_cell((i, i)).get_value() for i in range(max(W, H) + 1)])
        return o

    def obs_reader(self, elem):
        mat = TR.table_matrix(elem)
        m = GridModel(mat, TR.table_width(elem))
        return self.obs_model(m)

    @staticmethod
    def _first_diff(exp, act):
        for k in exp:
            if exp[k] != act.get(k):
                return k, exp[k], act.get(k)
        return None

    def _cls(self, pre, op):
        if not pre:
            return "-"
        parts = []
        for k in ("ypos", "xpos", "xcol", "overlap"):
            if k in pre:
                parts.append(f"{k}={pre[k]}")
        if op and op[0] not in ("row_repeated", "cell_repeated"):
            parts.append("k>1" if pre.get("k", 1) > 1 else "k=1")
        for k in ("in_wrapper", "cached"):
            if pre.get(k):
                parts.append(k)
        if op and op[-1] == "noclone":
            parts.append("noclone")
        return ",".join(parts)

    def check(self, st, prop, op):
        fails = []
        m, t = st.model, st.table
        pre = st.pre if op is not None else None
        elem = t._Element__element
        site = op[0] if op else "seed"
        cls = self._cls(pre, op)

        def fail(oracle, exp, act, symptom):
            st.diverged = True
            fails.append(Failure(oracle, exp, act, f"site=Table.{site}; class={cls}; symptom={symptom}"))

        W, H = m.width, m.height
        live = None
        c01 = None
        if st.exc:
            c01 = ("raises", None, st.exc, f"raises:{st.exc}")
        else:
            em = self.obs_model(m)
            live = self.obs_impl(t, W, H)
            d = self._first_diff(em, live)
            if d:
                act = d[2]
                sym = f"{d[0]}:{act}" if isinstance(act, str) and act.startswith("raises:") else f"read-differs:{d[0]}"
                c01 = (f"read:{d[0]}", d[1], d[2], sym)
        if c01:
            if prop == "C01":
                fail(c01[0], c01[1], c01[2], c01[3])
            elif st.exc:
                st.diverged = True  # pruned here, reported by the C01 run
            else:
                # the document itself left the model: pruned here, reported by the C01 run.  When only the
                # reading through cached wrappers is off (the XML still says what the model says) the
                # history goes on: stale wrappers are what later writes go through (C07), C02 reports them.
                ro = self.obs_reader(TR.parse_fragment(t.serialize()))
                if self._first_diff(ro, {k: em.get(k) for k in ro}):
                    st.diverged = True
        if prop == "C02" and not st.exc:
            xml = t.serialize()
            try:
                fresh = Element.from_tag(xml)
                fo = self.obs_impl(fresh, W, H)
            except Exception as e:
                fo = {"error": type(e).__name__}
            ro = self.obs_reader(TR.parse_fragment(xml))
            d = self._first_diff(fo, live)
            if d:
                fail(f"live-vs-fresh:{d[0]}", d[1], d[2], f"live!=fresh:{d[0]}")
            # the independent reader knows the XML only: compare what both define
            rl = {k: live.get(k) for k in ro}
            if ro["size"] == live.get("size") or True:
                d = self._first_diff(ro, rl)
                if d:
                    fail(f"live-vs-reader:{d[0]}", d[1], d[2], f"live!=reader:{d[0]}")
            for oracle, exp, act in self.cache_invariants(t):
                fail(oracle, exp, act, oracle)
            if self.cfg.get("save_reload") and st.sr and st.depth <= self.cfg.get("save_reload_depth", 1):
                for oracle, exp, act in self.save_reload(t, live, W, H):
                    fail(oracle, exp, act, oracle)
        if prop == "C07":
            first = bool(pre) and pre.get("H") == 0 and m.height > 0
            for oracle, exp, act in self.structure(elem, t if not st.exc else None, first):
                fail(oracle, exp, act, oracle)
        return fails

    # ---- C02 helpers
    @staticmethod
    def cache_invariants(t):
        out = []
        elem = t._Element__element
        rows = TR.table_rows(elem)
        cols = TR.table_columns(elem)
        tmap = TR.run_map(rows, TR.REP_R)
        cmap = TR.run_map(cols, TR.REP_C)
        if list(t._tmap) != tmap:
            out.append(("tmap!=xml", tmap, list(t._tmap)))
        if list(t._cmap) != cmap:
            out.append(("cmap!=xml", cmap, list(t._cmap)))
        for idx, w in t._indexes["_tmap"].items():
            if not (idx < len(rows) and w._Element__element is rows[idx]):
                out.append(("stale-cached-row", idx, "wraps another element"))
                break
            rmap = TR.run_map(TR.row_cells(rows[idx]), TR.REP_C)
            if list(w._rmap) != rmap:
                out.append(("cached-row-rmap!=xml", rmap, list(w._rmap)))
                break
            cells = TR.row_cells(rows[idx])
            for cidx, cw in w._indexes["_rmap"].items():
                if not (cidx < len(cells) and cw._Element__element is cells[cidx]):
                    out.append(("stale-cached-cell", (idx, cidx), "wraps another element"))
                    break
        for idx, w in t._indexes["_cmap"].items():
            if not (idx < len(cols) and w._Element__element is cols[idx]):
                out.append(("stale-cached-column", idx, "wraps another element"))
                break
        return out

    def save_reload(self, t, live, W, H):
        out = []
        try:
            doc = Document("spreadsheet")
            doc.body.clear()
            doc.body.append(t.clone)
            buf = io.BytesIO()
            doc.save(buf)
            buf.seek(0)
            doc2 = Document(buf)
            t2 = doc2.body.get_tables()[0]
            o2 = self.obs_impl(t2, W, H)
            d = self._first_diff(o2, live)
            if d:
                out.append((f"live!=reloaded:{d[0]}", d[1], d[2]))
        except Exception as e:
            out.append(("save-reload-raises", None, type(e).__name__))
        return out

    # ---- C07 helper
    @staticmethod
    def structure(elem, t=None, first_row_added=False):
        out = []

        def bad_rep(v):
            if v is None:
                return False
            try:
                return not (int(v) >= 2 and str(int(v)) == v)
            except ValueError:
                return True

        seen_row = False
        flat = []
        for ch in elem:
            if ch.tag in TR.ROW_WRAPPERS or ch.tag in TR.COL_WRAPPERS:
                flat.extend(list(ch))
            else:
                flat.append(ch)
        for ch in flat:
            if ch.tag == TR.ROW:
                seen_row = True
            elif ch.tag == TR.COLUMN and seen_row:
                out.append(("column-after-row", "columns first", "column after a row"))
        rows = TR.table_rows(elem)
        cols = TR.table_columns(elem)
        for c in cols:
            if bad_rep(c.get(TR.REP_C)):
                out.append(("bad-repeat-attribute", ">=2 or absent", c.get(TR.REP_C)))
        ncols = TR.table_width(elem)
        for r in rows:
            if bad_rep(r.get(TR.REP_R)):
                out.append(("bad-repeat-attribute", ">=2 or absent", r.get(TR.REP_R)))
            w = 0
            for c in r:
                if c.tag not in (TR.CELL, TR.COVERED):
                    out.append(("row-child-not-cell", "cell", str(c.tag)))
                    continue
                if bad_rep(c.get(TR.REP_C)):
                    out.append(("bad-repeat-attribute", ">=2 or absent", c.get(TR.REP_C)))
                w += TR._rep(c, TR.REP_C)
            if w > ncols:
                out.append(("row-wider-than-columns", ncols, w))
        if first_row_added and rows and not cols:
            out.append(("first-row-did-not-declare-columns", ">=1 column declaration", 0))
        if t is not None:
            if t.height != TR.table_height(elem):
                out.append(("height!=sum(repeats)", TR.table_height(elem), t.height))
            if t.width != ncols:
                out.append(("width!=sum(repeats)", ncols, t.width))
        # dedupe
        uniq = []
        for o in out:
            if o[0] not in [u[0] for u in uniq]:
                uniq.append(o)
        return uniq

    # ------------------------------------------------------------ key etc.
    def key(self, st):
        t = st.table
        elem = t._Element__element
        xml = etree.tostring(elem)
        rows = TR.table_rows(elem)
        cr = []
        for idx in sorted(t._indexes["_tmap"]):
            w = t._indexes["_tmap"][idx]
            ok = idx < len(rows) and w._Element__element is rows[idx]
            cr.append((idx, ok, tuple(w._rmap), tuple(sorted(w._indexes["_rmap"]))))
        cc = tuple(sorted(t._indexes["_cmap"]))
        return digest(xml, tuple(t._tmap), tuple(t._cmap), tuple(cr), cc, st.model.canon())

    def outcome(self, st):
        return (st.model.canon(), st.exc)

    def expandable(self, st):
        cw, ch = (12, 8) if st.doc is not None else (6, 6)  # sheets loaded from files start bigger
        return not st.diverged and st.model.width <= cw and st.model.height <= ch

    def describe(self, st):
        return {"xml": st.table.serialize(), "model": st.model.rows, "ncols": st.model.ncols,
                "tmap": list(st.table._tmap), "cmap": list(st.table._cmap)}
