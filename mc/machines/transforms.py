"""Transform machine (C17): whole-table transformations, checked by algebraic laws
on an independent reader's view of the XML before and after each step."""

from __future__ import annotations

import io
from itertools import zip_longest

from lxml import etree

from odfdo import Element, Table
from odfdo.table import import_from_csv

from ..engine import Failure, digest
from ..models import tableread as TR
from .tables import TableMachine, grid_seed_family, table_xml

SPAN_C = TR.T + "number-columns-spanned"
SPAN_R = TR.T + "number-rows-spanned"
STYLE = TR.T + "style-name"


def cell_info(c):
    return (
        TR.cell_value(c),
        c.get(STYLE),
        "covered" if c.tag == TR.COVERED else "cell",
        c.get(SPAN_C),
        c.get(SPAN_R),
    )


def info_matrix(elem):
    return TR.table_matrix(elem, value=cell_info)


EMPTY = (None, None, "cell", None, None)


def span_errors(info):
    """Merged regions against covered cells: every cell of a span rectangle other than its origin is a
    covered cell, every covered cell lies in exactly one rectangle.  Positions outside the rows are skipped."""
    owner = {}
    errs = []
    for yy, row in enumerate(info):
        for xx, c in enumerate(row):
            if c[2] == "cell" and (c[3] or c[4]):
                cs, rs = int(c[3] or 1), int(c[4] or 1)
                for j in range(yy, yy + rs):
                    for i in range(xx, xx + cs):
                        if (i, j) == (xx, yy):
                            continue
                        if (i, j) in owner:
                            errs.append(("overlap", (i, j)))
                        owner[(i, j)] = (xx, yy)
                        if j < len(info) and i < len(info[j]) and info[j][i][2] != "covered":
                            errs.append(("not-covered", (i, j)))
    for yy, row in enumerate(info):
        for xx, c in enumerate(row):
            if c[2] == "covered" and (xx, yy) not in owner:
                errs.append(("orphan-covered", (xx, yy)))
    return errs


def values_of(info):
    return [[c[0] for c in row] for row in info]


def trim(mat, empty=None):
    """Drop trailing empty cells of each row, then trailing empty rows."""
    out = []
    for row in mat:
        r = list(row)
        while r and r[-1] == empty:
            r.pop()
        out.append(r)
    while out and not out[-1]:
        out.pop()
    return out


def transpose_model(mat):
    rows = [list(r) for r in zip_longest(*mat, fillvalue=None)]
    return rows


def at(mat, x, y, empty=None):
    if 0 <= y < len(mat) and 0 <= x < len(mat[y]):
        return mat[y][x]
    return empty


class State:
    __slots__ = ("table", "exc", "diverged", "pre", "depth", "ret")


def extra_seeds():
    S, C = "S", "C"
    return [
        # styled empty trailing cells, ragged
        {"kind": "xml", "rows": [{"enc": [[1, 1], [S, 2]], "rep": 1}, {"enc": [[None, 1], [S, 1]], "rep": 1}, {"enc": [[S, 3]], "rep": 2}], "cols": [3]},
        # last row non-empty and repeated (optimize_width must not lose it)
        {"kind": "xml", "rows": [{"enc": [[1, 2], [2, 1]], "rep": 2}], "cols": [3]},
        {"kind": "xml", "rows": [{"enc": [[1, 1]], "rep": 1}, {"enc": [[2, 1], [3, 1]], "rep": 3}], "cols": [2]},
        # trailing empty rows and cells, repeated
        {"kind": "xml", "rows": [{"enc": [[1, 1], [None, 3]], "rep": 1}, {"enc": [[None, 4]], "rep": 3}], "cols": [4]},
        {"kind": "xml", "rows": [{"enc": [[1, 1], [None, 1], [2, 1], [None, 2]], "rep": 2}, {"enc": [[None, 5]], "rep": 1}, {"enc": [], "rep": 2}], "cols": [2, 3]},
        # an existing span (0,0)-(1,1) in a 3x3
        {"kind": "xml", "rows": [{"enc": [[["O", 1, 2, 2], 1], [C, 1], [2, 1]], "rep": 1}, {"enc": [[C, 2], [3, 1]], "rep": 1}, {"enc": [[4, 1], [5, 1], [6, 1]], "rep": 1}], "cols": [3]},
        # ragged rows with values (transpose must pad)
        {"kind": "xml", "rows": [{"enc": [[1, 1], [2, 1], [3, 1]], "rep": 1}, {"enc": [[4, 1]], "rep": 1}, {"enc": [[5, 1], [6, 1]], "rep": 1}], "cols": [3]},
        # strings (csv round trip)
        {"kind": "xml", "rows": [{"enc": [["ab", 1], [1, 1]], "rep": 1}, {"enc": [[2, 1], ["c d", 1]], "rep": 1}], "cols": [2]},
        # one column only
        {"kind": "xml", "rows": [{"enc": [[1, 1]], "rep": 2}, {"enc": [[2, 1]], "rep": 1}], "cols": [1]},
        # csv: delimiter characters inside strings, a decimal number, an apostrophe (a string holding the
        # quote character together with delimiters defeats csv.Sniffer's doublequote detection, on which
        # import_from_csv's documented, limited autodetection rests: not used)
        {"kind": "xml", "rows": [{"enc": [["a,b", 1], [1.5, 1]], "rep": 1}, {"enc": [["q t", 1], ["x;y", 1]], "rep": 1}, {"enc": [[-2, 1], ["it's", 1]], "rep": 1}], "cols": [2]},
        # values that evaluate to False are values: trailing 0 cells / rows of zeros must survive stripping
        {"kind": "xml", "rows": [{"enc": [[1, 1], [0, 2]], "rep": 1}, {"enc": [[0, 1], [None, 2]], "rep": 1}, {"enc": [[0, 3]], "rep": 2}, {"enc": [[None, 3]], "rep": 1}], "cols": [3]},
        # the same with value cells that carry no text:p child (0, false, empty string, and a non-zero control)
        {"kind": "xml", "rows": [{"enc": [[1, 1], [["N", "float", "0"], 2]], "rep": 1}, {"enc": [[["N", "float", "7"], 1], [["N", "boolean", "false"], 1], [None, 1]], "rep": 1},
                                 {"enc": [[["N", "float", "0"], 3]], "rep": 2}, {"enc": [[None, 3]], "rep": 1}], "cols": [3]},
    ]


class TransformMachine:
    name = "transform"

    def __init__(self, cfg=None):
        self.cfg = cfg or {}
        fam = grid_seed_family()
        self.n_family = len(fam)
        self.seed_list = fam + extra_seeds()
        self.seed_list.append({"kind": "ctor", "width": 3, "height": 2})

    def select_seeds(self, which):
        n = len(self.seed_list)
        fam = self.n_family
        extras = list(range(fam, n))
        if which == "all":
            return list(range(n))
        if which == "rep":
            return [0, 5, 17, 30, 47, 58, 76, fam - 1] + extras
        if which == "rep3":
            return [0, 47] + extras
        raise ValueError(which)

    def new(self, seed):
        st = State()
        st.exc = None
        st.pre = None
        st.diverged = False
        st.depth = 0
        st.ret = None
        if seed["kind"] == "xml":
            st.table = Element.from_tag(table_xml(seed))
        else:
            st.table = Table("T", width=seed["width"], height=seed["height"])
        return st

    # ------------------------------------------------------------ alphabet
    def enabled(self, st, alphabet):
        elem = st.table._Element__element
        W, H = TR.table_width(elem), TR.table_height(elem)
        ops = [("transpose",), ("rstrip", False), ("rstrip", True), ("optimize_width",), ("csv_roundtrip",), ("read_all",)]
        areas = []
        if W >= 2 and H >= 2:
            areas.append((0, 0, 1, 1))
            areas.append((W - 2, H - 2, W - 1, H - 1))
        if W >= 2 and H >= 1:
            areas.append((0, 0, 1, 0))
            areas.append((W - 2, H - 1, W - 1, H - 1))
        if H >= 2 and W >= 1:
            areas.append((0, 0, 0, 1))
            areas.append((W - 1, 0, W - 1, H - 1))
        if W >= 3 and H >= 3:
            areas.append((1, 1, 2, 2))
            areas.append((0, 0, 2, 2))
        if W >= 1 and H >= 1:
            areas.append((0, 0, 0, 0))
        if alphabet == "full" and W >= 1 and H >= 1:
            areas.append((W - 1, H - 1, W, H))  # reaches beyond the table
        seen = []
        for a in areas:
            if a not in seen:
                seen.append(a)
        for a in seen:
            ops.append(("set_span", a, False))
            if alphabet == "full" or a in seen[:2]:
                ops.append(("set_span", a, True))
            ops.append(("del_span", a))
            if a[2] - a[0] == a[3] - a[1] and a != (0, 0, 0, 0) and not self._cuts_a_span(elem, a):
                ops.append(("transpose_area", a))
        return ops

    @staticmethod
    def _cuts_a_span(elem, a):
        """Transposing an area that contains only a part of a merged region has no defined result
        (the origin or some covered cells stay outside): outside the domain."""
        info = info_matrix(elem)
        x, y, z, t = a
        for yy, row in enumerate(info):
            for xx, c in enumerate(row):
                if c[2] == "cell" and (c[3] or c[4]):
                    cs, rs = int(c[3] or 1), int(c[4] or 1)
                    inside = [x <= i <= z and y <= j <= t for j in range(yy, yy + rs) for i in range(xx, xx + cs)]
                    if any(inside) and not all(inside):
                        return True
        return False

    # ------------------------------------------------------------ step
    def step(self, st, op):
        t = st.table
        elem = t._Element__element
        st.exc = None
        st.ret = None
        st.depth += 1
        info = info_matrix(elem)
        st.pre = {
            "info": info,
            "W": TR.table_width(elem),
            "H": TR.table_height(elem),
            "xml": t.serialize(),
            "rowrep": any(TR._rep(r, TR.REP_R) > 1 for r in TR.table_rows(elem)),
            "cellrep": any(k > 1 for r in TR.table_rows(elem) for _, k in TR.row_runs(r)),
            "ragged": len({len(r) for r in info}) > 1,
            "styled": any(c[1] for r in info for c in r),
            "spans": any(c[2] == "covered" or c[3] for r in info for c in r),
        }
        name = op[0]
        try:
            if name == "transpose":
                t.transpose()
            elif name == "transpose_area":
                t.transpose(tuple(op[1]))
            elif name == "rstrip":
                t.rstrip(aggressive=op[1])
            elif name == "optimize_width":
                t.optimize_width()
            elif name == "set_span":
                st.ret = t.set_span(tuple(op[1]), merge=op[2])
            elif name == "del_span":
                st.ret = t.del_span(tuple(op[1]))
            elif name == "csv_roundtrip":
                csv_text = t.to_csv()
                st.ret = csv_text
            elif name == "read_all":
                # populate every wrapper cache (rows, cells, columns)
                for y in range(t.height):
                    rr = t.get_row(y, clone=False)
                    for x in range(rr.width):
                        rr.get_cell(x, clone=False)
                list(t.traverse_columns())
            else:
                raise AssertionError(name)
        except Exception as e:
            st.exc = type(e).__name__

    def nontrivial(self, st, op):
        p = st.pre
        return bool(p and (p["rowrep"] or p["cellrep"] or p["ragged"] or p["styled"] or p["spans"]))

    # ------------------------------------------------------------ laws
    def check(self, st, prop, op):
        fails = []
        if op is None:
            return fails
        t = st.table
        elem = t._Element__element
        pre = st.pre
        name = op[0]
        cls = ",".join(k for k in ("rowrep", "cellrep", "ragged", "styled", "spans") if pre[k]) or "plain"

        def fail(oracle, exp, act, symptom):
            st.diverged = True
            fails.append(Failure(oracle, exp, act, f"site=Table.{name}; class={cls}; symptom={symptom}"))

        if st.exc:
            fail("raises", "no exception", st.exc, f"raises:{st.exc}")
            return fails
        post = info_matrix(elem)
        pv, qv = values_of(pre["info"]), values_of(post)

        # every op: the live object agrees with its own XML (fresh view)
        try:
            live = t.get_values()
            W = TR.table_width(elem)
            reader = [r + [None] * (W - len(r)) for r in qv]
            if live != reader or tuple(t.size) != (W, TR.table_height(elem)):
                fail("live-vs-xml", {"values": reader, "size": (W, TR.table_height(elem))}, {"values": live, "size": tuple(t.size)}, "live!=own-xml")
        except Exception as e:
            fail("live-read-raises", "no exception", type(e).__name__, f"read-raises:{type(e).__name__}")
        for oracle, exp, act in TableMachine.structure(elem, t):
            fail(oracle, exp, act, "structure:" + oracle)
        for oracle, exp, act in TableMachine.cache_invariants(t):
            fail(oracle, exp, act, "cache:" + oracle)
        if not fails:
            # reads served through the cached row / cell wrappers
            try:
                Wc, Hc = TR.table_width(elem), TR.table_height(elem)
                via_cache = [[t.get_value((x, y)) for x in range(Wc + 1)] for y in range(Hc + 1)]
                exp_c = [[at(qv, x, y) for x in range(Wc + 1)] for y in range(Hc + 1)]
                if via_cache != exp_c:
                    fail("cached-reads-vs-xml", exp_c, via_cache, "cached-read!=own-xml")
            except Exception as e:
                fail("cached-read-raises", "no exception", type(e).__name__, f"read-raises:{type(e).__name__}")
        if fails:
            return fails

        if name == "transpose":
            exp = trim(transpose_model(pv))
            if not span_errors(pre["info"]) and span_errors(info_matrix(elem)):
                fail("transpose-spans", "merged regions transposed with their covered cells", span_errors(info_matrix(elem))[:4], "transposed-spans-inconsistent")
            elif trim(qv) != exp:
                fail("transpose", exp, trim(qv), "not-the-transposed-matrix")
            else:
                try:
                    t.transpose()
                    back = trim(values_of(info_matrix(elem)))
                    if back != trim(pv):
                        fail("transpose-twice", trim(pv), back, "double-transpose-not-identity")
                except Exception as e:
                    fail("transpose-twice", "no exception", type(e).__name__, f"second-transpose-raises:{type(e).__name__}")
        elif name == "transpose_area":
            x, y, z, tt = op[1]
            bad = None
            if not span_errors(pre["info"]) and span_errors(info_matrix(elem)):
                fail("transpose-spans", "merged regions of the area transposed with their covered cells", span_errors(info_matrix(elem))[:4], "transposed-spans-inconsistent")
            for yy in range(max(len(pv), len(qv))):
                for xx in range(max(pre["W"], max((len(r) for r in qv), default=0))):
                    inside = x <= xx <= z and y <= yy <= tt
                    if inside:
                        e = at(pv, x + (yy - y), y + (xx - x))
                    else:
                        e = at(pv, xx, yy)
                    if at(qv, xx, yy) != e:
                        bad = ((xx, yy), e, at(qv, xx, yy))
                        break
                if bad:
                    break
            if bad:
                fail("transpose-area", bad[1], bad[2], "area-not-transposed-or-outside-changed")
        elif name in ("rstrip", "optimize_width"):
            # values keep their coordinates
            bad = None
            for yy in range(max(len(pv), len(qv))):
                for xx in range(max(max((len(r) for r in pv), default=0), max((len(r) for r in qv), default=0))):
                    if at(pv, xx, yy) != at(qv, xx, yy):
                        bad = ((xx, yy), at(pv, xx, yy), at(qv, xx, yy))
                        break
                if bad:
                    break
            if bad:
                fail("values-keep-coordinates", {"at": bad[0], "value": bad[1]}, bad[2], "value-lost-or-moved")
            if name == "rstrip":
                aggressive = op[1]

                def is_empty(c):
                    if c[0] is not None or c[2] == "covered" or c[3] or c[4]:
                        return False
                    return aggressive or c[1] is None

                # expected: strip trailing empty cells of every row after dropping trailing empty rows
                rows = [list(r) for r in pre["info"]]
                while rows and all(is_empty(c) for c in rows[-1]):
                    rows.pop()
                exp = []
                for r in rows:
                    while r and is_empty(r[-1]):
                        r.pop()
                    exp.append(r)
                if post != exp:
                    fail("rstrip-result", exp, post, "not-exactly-trailing-empties-removed")
            else:
                # styles of non trailing cells are kept; nothing but trailing empties disappears
                for yy, r in enumerate(pre["info"]):
                    for xx, c in enumerate(r):
                        q = at(post, xx, yy, EMPTY)
                        if q != c and not (c[0] is None and c[2] == "cell" and not c[3] and not c[4]):
                            fail("optimize-keeps-content", c, q, "non-empty-cell-changed")
                            break
            # idempotent
            if not fails:
                s1 = t.serialize()
                try:
                    if name == "rstrip":
                        t.rstrip(aggressive=op[1])
                    else:
                        t.optimize_width()
                    if t.serialize() != s1:
                        fail("idempotent", s1, t.serialize(), "not-idempotent")
                except Exception as e:
                    fail("idempotent", "no exception", type(e).__name__, f"second-call-raises:{type(e).__name__}")
        elif name == "set_span":
            x, y, z, tt = op[1]
            merge = op[2]
            single = (x, y) == (z, tt)
            meets = any(
                (lambda c: c[2] == "covered" or c[3] or c[4])(at(pre["info"], xx, yy, EMPTY))
                for yy in range(y, tt + 1)
                for xx in range(x, z + 1)
            )
            if single or meets:
                if st.ret is not False:
                    fail("set_span-refuses", False, st.ret, "span-accepted-over-existing-or-single")
                if t.serialize() != pre["xml"]:
                    fail("set_span-refuses", "table unchanged", "changed", "refused-span-changed-table")
            else:
                if st.ret is not True:
                    fail("set_span-returns", True, st.ret, "valid-span-refused")
                else:
                    for yy in range(max(len(pre["info"]), len(post), tt + 1)):
                        for xx in range(max(pre["W"], z + 1)):
                            p = at(pre["info"], xx, yy, EMPTY)
                            q = at(post, xx, yy, EMPTY)
                            inside = x <= xx <= z and y <= yy <= tt
                            if (xx, yy) == (x, y):
                                okk = q[2] == "cell" and q[3] == str(z - x + 1) and q[4] == str(tt - y + 1)
                                if not merge:
                                    okk = okk and q[0] == p[0]
                            elif inside:
                                okk = q[2] == "covered" and not q[3] and not q[4]
                                if not merge:
                                    okk = okk and q[0] == p[0]
                            else:
                                okk = q == p
                            if not okk:
                                fail("set_span-exact-area", {"at": (xx, yy), "before": p, "inside": inside}, q, "span-not-exactly-the-area" if (inside or (xx, yy) == (x, y)) else "outside-changed")
                                break
                        if fails:
                            break
                    if not fails:
                        # del_span restores the table (cell kinds, values, styles)
                        try:
                            r2 = t.del_span((x, y, z, tt))
                            back = info_matrix(elem)
                            if r2 is not True:
                                fail("del_span-after-set_span", True, r2, "del_span-refused")
                            elif not merge:
                                width = max(pre["W"], z + 1)
                                a = [r + [EMPTY] * (width - len(r)) for r in pre["info"]]
                                b = [r + [EMPTY] * (width - len(r)) for r in back]
                                while len(a) < len(b):
                                    a.append([EMPTY] * width)
                                if trim([[c if c != EMPTY else None for c in r] for r in a]) != trim([[c if c != EMPTY else None for c in r] for r in b]):
                                    fail("del_span-after-set_span", a, b, "set_span-then-del_span-not-identity")
                        except Exception as e:
                            fail("del_span-after-set_span", "no exception", type(e).__name__, f"del_span-raises:{type(e).__name__}")
        elif name == "del_span":
            x, y, z, tt = op[1]
            origin = at(pre["info"], x, y, EMPTY)
            if not (origin[3] and origin[4]):
                if st.ret is not False or t.serialize() != pre["xml"]:
                    fail("del_span-nothing", "False and unchanged", st.ret, "del_span-without-span-changed-table")
            else:
                cs, rs = int(origin[3]), int(origin[4])
                for yy in range(len(post)):
                    for xx in range(len(post[yy])):
                        p = at(pre["info"], xx, yy, EMPTY)
                        q = post[yy][xx]
                        inside = x <= xx < x + cs and y <= yy < y + rs
                        if inside:
                            okk = q[2] == "cell" and not q[3] and not q[4] and q[0] == p[0]
                        else:
                            okk = q == p
                        if not okk:
                            fail("del_span-exact", {"at": (xx, yy), "before": p}, q, "del_span-wrong-cells")
                            break
                    if fails:
                        break
        elif name == "csv_roundtrip" and "," not in st.ret:
            pass  # no delimiter in the export: import_from_csv documents that autodetection is limited
        elif name == "csv_roundtrip":
            try:
                t2 = import_from_csv(io.StringIO(st.ret), "T2")
                got = [[(None if v == "" else v) for v in row] for row in t2.get_values()]
                exp = [[(v.strip() if isinstance(v, str) else v) for v in row] for row in pv]
                exp = [[(None if v == "" else v) for v in row] for row in exp]
                # CSV carries no types: a string cell that reads as a number ('1' after a merging span)
                # legitimately comes back as that number -> compared through their CSV spelling
                exp = [[(None if v is None else str(v)) for v in row] for row in exp]
                got = [[(None if v is None else str(v)) for v in row] for row in got]
                te, tg = trim(exp), trim(got)
                # interior empty rows are kept as empty lines; compare row by row
                if te != tg:
                    fail("csv-roundtrip", te, tg, "csv-values-differ")
            except Exception as e:
                fail("csv-roundtrip", "no exception", f"{type(e).__name__}: {e}", f"csv-import-raises:{type(e).__name__}")
        return fails

    # ------------------------------------------------------------ key etc.
    def key(self, st):
        t = st.table
        cached = (tuple(sorted(t._indexes["_tmap"])), tuple(sorted(t._indexes["_cmap"])))
        return digest(etree.tostring(t._Element__element), tuple(t._tmap), tuple(t._cmap), cached, st.exc)

    def outcome(self, st):
        return (st.exc, repr(st.ret)[:40] if not isinstance(st.ret, str) else "csv")

    def expandable(self, st):
        if st.diverged or st.exc:
            return False
        elem = st.table._Element__element
        return TR.table_width(elem) <= 6 and TR.table_height(elem) <= 6

    def describe(self, st):
        return {"xml": st.table.serialize()}
