"""Known-findings matching, replay artefacts, evidence files, exit status."""

from __future__ import annotations

import fnmatch
import hashlib
import json
import os
import subprocess
import sys
import time
from pathlib import Path

ROOT = Path(__file__).resolve().parent.parent
KNOWN = ROOT / "known_findings.json"
EVID = ROOT / "evidence"
REPLAYS = ROOT / "replays"


def load_known(prop: str) -> list[dict]:
    if not KNOWN.exists():
        return []
    data = json.loads(KNOWN.read_text())
    out = []
    for e in data.get("findings", []):
        props = e.get("properties") or [e.get("property")]
        if prop in props:
            out.append(e)
    return out


def match_known(known: list[dict], signature: str) -> dict | None:
    for e in known:
        if e.get("status") != "open":
            continue  # a fixed entry suppresses nothing
        sigs = e.get("signatures") or ([e["signature"]] if e.get("signature") else [])
        if signature in sigs:
            return e
        for pat in e.get("signature_patterns", []):
            if fnmatch.fnmatchcase(signature, pat):
                return e
    return None


def write_replay(prop: str, payload: dict) -> Path:
    d = REPLAYS / prop
    d.mkdir(parents=True, exist_ok=True)
    blob = json.dumps(payload, sort_keys=True, ensure_ascii=False, default=repr)
    name = hashlib.blake2b(blob.encode(), digest_size=8).hexdigest() + ".json"
    p = d / name
    p.write_text(json.dumps(payload, indent=1, ensure_ascii=False, default=repr))
    return p


def validate_evidence(path: Path) -> str | None:
    """Validate with jsonschema from the tooling venv if it is there (non fatal)."""
    schema = Path("/root/.vp/EVIDENCE.schema.json")
    exe = "/opt/veriftools/pyvenv/bin/python"
    if not schema.exists() or not os.path.exists(exe):
        return None
    code = (
        "import json,sys,jsonschema;"
        "jsonschema.validate(json.load(open(sys.argv[1])),json.load(open(sys.argv[2])))"
    )
    r = subprocess.run([exe, "-c", code, str(path), str(schema)], capture_output=True, text=True)
    if r.returncode != 0:
        return r.stderr.strip().splitlines()[-1] if r.stderr.strip() else "invalid"
    return None


def write_evidence(prop: str, tier: str, seed: int, level: str, coverage: dict,
                   assumptions: list[str], wall: float, violations: int) -> Path:
    EVID.mkdir(exist_ok=True)
    ev = {
        "property_id": prop,
        "tier": tier,
        "seed": seed,
        "level": level,
        "coverage": coverage,
        "assumptions": assumptions,
        "wall_s": round(wall, 2),
        "violations": violations,
    }
    p = EVID / f"{prop}.json"
    p.write_text(json.dumps(ev, indent=1, ensure_ascii=False, default=repr))
    err = validate_evidence(p)
    if err:
        print(f"EVIDENCE-INVALID {p}: {err}", file=sys.stderr)
    return p


def _rank(f: dict):
    return (len(f["replay"].get("history", [])), json.dumps(f["replay"], sort_keys=True, default=repr))


def compact(failures: list[dict]) -> list[dict]:
    """One record per signature: the smallest example, with the number of occurrences in 'count'.
    (A violated property can fail on millions of evaluations; workers and the parent keep this form.)"""
    best: dict[str, dict] = {}
    for f in failures:
        sig = f["signature"]
        n = f.get("count", 1)
        b = best.get(sig)
        if b is None:
            g = dict(f)
            g["count"] = n
            best[sig] = g
        else:
            total = b["count"] + n
            if _rank(f) < _rank(b):
                g = dict(f)
                best[sig] = g
                b = g
            b["count"] = total
    return list(best.values())


def conclude(prop: str, tier: str, vseed: int, failures: list[dict], coverage: dict,
             assumptions: list[str], t0: float, errors: list | None = None,
             level: str = "model_checking") -> int:
    """failures: list of dicts with at least 'signature' and a replay payload under 'replay'.

    Prints KNOWN-FINDING / VIOLATION lines, writes evidence, returns exit code."""
    known = load_known(prop)
    by_sig: dict[str, list[dict]] = {}
    for f in failures:
        by_sig.setdefault(f["signature"], []).append(f)
    violations = 0
    known_hit: dict[str, int] = {}
    lines = []
    for sig in sorted(by_sig):
        items = by_sig[sig]
        e = match_known(known, sig)
        if e is not None:
            known_hit[e["id"]] = known_hit.get(e["id"], 0) + sum(f.get("count", 1) for f in items)
            continue
        violations += 1
        first = min(items, key=_rank)
        nocc = sum(f.get("count", 1) for f in items)
        payload = dict(first["replay"])
        payload["property"] = prop
        payload["signature"] = sig
        payload["occurrences"] = nocc
        path = write_replay(prop, payload)
        lines.append(f"VIOLATION property={prop} replay={path}")
        print(f"  signature: {sig}\n  occurrences: {nocc}\n  oracle: {payload.get('oracle')}\n  expected: {str(payload.get('expected'))[:300]}\n  actual:   {str(payload.get('actual'))[:300]}")
    for e in known:
        if e.get("status") == "open" and e["id"] in known_hit:
            print(f"KNOWN-FINDING: property={prop} {e['id']} {e['what']} (hit {known_hit[e['id']]}x)")
    for ln in lines:
        print(ln)
    if errors:
        for er in errors[:5]:
            print("HARNESS-ERROR", json.dumps(er, default=repr)[:2000], file=sys.stderr)
    coverage = dict(coverage)
    coverage["known_findings_hit"] = known_hit
    coverage["distinct_failure_signatures"] = len(by_sig)
    write_evidence(prop, tier, vseed, level, coverage, assumptions, time.time() - t0, violations)
    if errors:
        print(f"[{prop}] {len(errors)} harness errors", file=sys.stderr)
        return 2
    return 1 if violations else 0
