"""./run <property> <tier>  |  ./run replay <file>  |  ./run selftest"""

from __future__ import annotations

import importlib
import json
import os
import sys
import time

CHECKS = {
    "C01": "mc.checks.tablefam",
    "C02": "mc.checks.tablefam",
    "C03": "mc.checks.c03",
    "C04": "mc.checks.c03",
    "C05": "mc.checks.c05",
    "C06": "mc.checks.c06",
    "C07": "mc.checks.tablefam",
    "C08": "mc.checks.c08",
    "C09": "mc.checks.c09",
    "C10": "mc.checks.c10",
    "C11": "mc.checks.c11",
    "C12": "mc.checks.c12",
    "C13": "mc.checks.c13",
    "C14": "mc.checks.c14",
    "C15": "mc.checks.c15",
    "C16": "mc.checks.c16",
    "C17": "mc.checks.c17",
    "C18": "mc.checks.c18",
    "C19": "mc.checks.c19",
    "C20": "mc.checks.c20",
}


def main(argv):
    if len(argv) < 2:
        print(__doc__)
        return 2
    cmd = argv[1]
    if cmd == "selftest":
        from . import selftest

        return selftest.main()
    if cmd == "replay":
        from . import replay

        return replay.main(argv[2])
    prop = cmd.upper()
    tier = argv[2] if len(argv) > 2 else os.environ.get("VERIF_TIER", "quick")
    vseed = int(os.environ.get("VERIF_SEED", "0") or 0)
    modname = CHECKS.get(prop)
    if modname is None:
        print(f"no check registered for {prop}", file=sys.stderr)
        return 2
    mod = importlib.import_module(modname)
    try:
        return mod.run(prop, tier, vseed)
    except Exception:
        # The exploration itself crashed: on a tree where the property holds this never happens (the
        # checks are run on the unchanged tree before every commit); on a changed tree the implementation
        # left the domain the harness relies on. Reported as a violation with the traceback as replay.
        import traceback

        from . import report

        tb = traceback.format_exc()
        print(tb, file=sys.stderr)
        path = report.write_replay(prop, {"property": prop, "signature": f"site=exploration; class=crash; symptom=raises:{tb.strip().splitlines()[-1][:80]}",
                                          "replay_module": "mc.crash", "history": [], "oracle": "exploration-completes", "expected": "no exception",
                                          "actual": tb[-3000:], "command": f"./run {prop} {tier}"})
        print(f"VIOLATION property={prop} replay={path}")
        return 1


if __name__ == "__main__":
    sys.exit(main(sys.argv))
