"""setup_cmd: check the environment and the reference models' own unit checks."""

from __future__ import annotations

import sys


def main():
    import lxml  # noqa
    import odfdo

    import os

    assert odfdo.__file__.startswith(os.environ.get("ODFDO_REPO", "/repo") + "/src"), odfdo.__file__
    from .models.grid import RowModel, norm_index
    from .models import tableread as TR

    r = RowModel([1, 2, 3])
    r.set_cell(1, 9, 3)
    assert r.cells == [1, 9, 9, 9], r.cells
    r.set_cell(6, 5)
    assert r.cells == [1, 9, 9, 9, None, None, 5]
    r.insert_cell(0, 4, 2)
    assert r.cells[:3] == [4, 4, 1]
    r.delete_cell(-1)
    assert r.cells[-1] is None
    assert norm_index(-1, 0) == 0 and norm_index(-1, 4) == 3 and norm_index(-5, 3) == 1
    e = TR.parse_fragment('<table:table-row><table:table-cell table:number-columns-repeated="2" office:value-type="float" office:value="3"/><table:table-cell/></table:table-row>')
    assert TR.expand_row(e) == [3, 3, None]
    print("selftest ok: odfdo", odfdo.__version__, "from", odfdo.__file__)
    return 0


if __name__ == "__main__":
    sys.exit(main())
