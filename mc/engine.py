"""Bounded exhaustive exploration engine (explicit-state BFS over the real code).

A *machine* (see mc/machines/*) supplies:

    name                     str
    seeds(cfg)            -> list of JSON-able seed specs
    new(seed)             -> state object (real odfdo objects + reference model)
    enabled(st, alphabet) -> list of JSON-able ops enabled in st (model-derived)
    step(st, op)          -> None: apply op to implementation and model
    check(st, prop)       -> list of Failure (oracle id, expected, actual, signature)
    key(st)               -> bytes (canonical state key)
    nontrivial(st, op)    -> bool  (op hit a repeated run / non default config...)
    outcome(st)           -> hashable small observation (to expose vacuous runs)
    describe(st)          -> JSON-able description for evidence samples

A state is (seed index, history); visiting it = build the seed afresh and replay
the history on the real objects.  The master keeps the ``seen`` set and the
frontier; workers (fork pool) expand frontier entries.
"""

from __future__ import annotations

import hashlib
import json
import multiprocessing as mp
import os
import random
import sys
import time
import traceback
from dataclasses import dataclass, field
from typing import Any

_MACHINE = None  # set in workers (inherited by fork)
_PROP = None
_CFG = None


@dataclass
class Failure:
    oracle: str
    expected: Any
    actual: Any
    signature: str
    detail: str = ""

    def to_json(self) -> dict:
        return {
            "oracle": self.oracle,
            "expected": _jsonable(self.expected),
            "actual": _jsonable(self.actual),
            "signature": self.signature,
            "detail": self.detail,
        }


def _jsonable(x: Any) -> Any:
    try:
        json.dumps(x)
        return x
    except Exception:
        return repr(x)


def digest(*parts: Any) -> bytes:
    h = hashlib.blake2b(digest_size=16)
    for p in parts:
        if isinstance(p, bytes):
            h.update(p)
        else:
            h.update(repr(p).encode("utf-8", "backslashreplace"))
        h.update(b"\x00")
    return h.digest()


class NonDeterminism(Exception):
    pass


def _clear_caches() -> None:
    try:
        from odfdo.element import xpath_compile

        if xpath_compile.cache_info().currsize > 5000:
            xpath_compile.cache_clear()
    except Exception:
        pass


def run_history(machine, seed, history, prop=None, check_each=False):
    """Build the seed and replay history. Returns state (after the last op)."""
    st = machine.new(seed)
    for op in history:
        machine.step(st, op)
    return st


def _expand(task):
    """Worker: expand one frontier entry -> list of transition records."""
    seed_idx, history, expect_key, alphabet = task
    machine, prop = _MACHINE, _PROP
    seed = machine.seed_list[seed_idx]
    out = []
    try:
        st0 = run_history(machine, seed, history)
        k0 = machine.key(st0)
        if expect_key is not None and k0 != expect_key:
            return ("NONDET", seed_idx, history, None)
        ops = machine.enabled(st0, alphabet)
        for oi, op in enumerate(ops):
            st = run_history(machine, seed, history) if oi else st0
            machine.step(st, op)
            key = machine.key(st)  # before check(): observing fills caches
            fails = machine.check(st, prop, op)
            rec = {
                "op": op,
                "key": key,
                "changed": key != k0,
                "nontrivial": bool(machine.nontrivial(st, op)),
                "outcome": machine.outcome(st),
                "fails": [f.to_json() for f in fails],
                "expand": machine.expandable(st),
            }
            out.append(rec)
        _clear_caches()
    except Exception:
        return ("ERROR", seed_idx, history, traceback.format_exc())
    return ("OK", seed_idx, history, out)


def _check_seed(task):
    seed_idx = task
    machine, prop = _MACHINE, _PROP
    seed = machine.seed_list[seed_idx]
    try:
        st = machine.new(seed)
        key = machine.key(st)
        fails = machine.check(st, prop, None)
        return ("OK", seed_idx, key, [f.to_json() for f in fails], machine.outcome(st))
    except Exception:
        return ("ERROR", seed_idx, None, traceback.format_exc(), None)


@dataclass
class Result:
    states: int = 0
    transitions: int = 0
    histories: int = 0
    nontrivial_states: int = 0
    outcomes: set = field(default_factory=set)
    failures: list = field(default_factory=list)  # (seed_idx, history, failing op, fail json)
    samples: list = field(default_factory=list)
    depth_completed: dict = field(default_factory=dict)
    capped: bool = False
    seeds: int = 0
    alphabet_sizes: dict = field(default_factory=dict)
    errors: list = field(default_factory=list)
    per_depth: list = field(default_factory=list)


def explore(machine, prop, phases, cfg, nproc=None, time_budget=None, vseed=0, log=print):
    """phases: list of dicts {alphabet: name, depth: int, seeds: optional filter name}."""
    global _MACHINE, _PROP, _CFG
    _MACHINE, _PROP, _CFG = machine, prop, cfg
    nproc = nproc or int(os.environ.get("VERIF_NPROC", "0")) or min(16, os.cpu_count() or 1)
    res = Result()
    t0 = time.time()
    rng = random.Random(vseed)
    all_seen: set[bytes] = set()
    nontrivial_keys: set[bytes] = set()
    ctx = mp.get_context("fork")
    pool = ctx.Pool(nproc)
    try:
        for ph in phases:
            alphabet, maxd = ph["alphabet"], ph["depth"]
            seed_idxs = machine.select_seeds(ph.get("seeds", "all"))
            res.seeds = max(res.seeds, len(seed_idxs))
            seen: set[bytes] = set()
            frontier = []
            # depth 0: check the seeds themselves
            for r in pool.imap(_check_seed, seed_idxs, chunksize=4):
                tag, sidx, key, fails, outcome = r
                if tag != "OK":
                    res.errors.append({"where": "seed", "seed": sidx, "trace": fails})
                    continue
                res.outcomes.add(outcome)
                if fails:
                    for f in fails:
                        res.failures.append((sidx, [], None, f))
                    continue
                if key not in seen:
                    seen.add(key)
                    frontier.append((sidx, (), key))
            phase_name = f"{alphabet}:d{maxd}:{ph.get('seeds', 'all')}"
            done_depth = 0
            for depth in range(1, maxd + 1):
                tasks = [(s, h, k, alphabet) for (s, h, k) in frontier]
                order = list(range(len(tasks)))
                rng.shuffle(order)  # VERIF_SEED only permutes scheduling
                results = [None] * len(tasks)
                cs = max(1, min(64, len(tasks) // (nproc * 8) or 1))
                capped = False
                for i, r in zip(order, pool.imap(_expand, [tasks[i] for i in order], chunksize=cs)):
                    results[i] = r
                    if time_budget and time.time() - t0 > time_budget:
                        capped = True
                        break
                if capped:
                    res.capped = True
                    pool.terminate()
                    pool = ctx.Pool(nproc)
                    log(f"[{prop}] phase {phase_name}: time cap hit inside depth {depth}; depth {done_depth} completed")
                    break
                nxt = []
                ntrans = 0
                for r in results:
                    tag, sidx, hist, out = r
                    if tag == "NONDET":
                        raise NonDeterminism(f"key mismatch replaying seed={sidx} history={hist}")
                    if tag == "ERROR":
                        res.errors.append({"where": "expand", "seed": sidx, "history": list(hist), "trace": out})
                        continue
                    res.histories += 1
                    if depth == 1 and sidx not in res.alphabet_sizes:
                        res.alphabet_sizes[sidx] = len(out)
                    for rec in out:
                        ntrans += 1
                        res.outcomes.add(rec["outcome"])
                        h2 = hist + (rec["op"],)
                        if rec["fails"]:
                            for f in rec["fails"]:
                                res.failures.append((sidx, list(hist), rec["op"], f))
                            continue  # first-divergence pruning
                        if rec["nontrivial"] and rec["changed"]:
                            nontrivial_keys.add(rec["key"])
                        if rec["key"] not in seen:
                            seen.add(rec["key"])
                            if rec["expand"]:
                                nxt.append((sidx, h2, rec["key"]))
                            if len(res.samples) < 6 and rec["nontrivial"] and rec["changed"] and depth == maxd:
                                res.samples.append({"seed": machine.seed_list[sidx], "history": [list(o) if isinstance(o, tuple) else o for o in h2]})
                res.transitions += ntrans
                frontier = nxt
                done_depth = depth
                res.per_depth.append({"phase": phase_name, "depth": depth, "transitions": ntrans, "new_states": len(nxt), "t": round(time.time() - t0, 1)})
                log(f"[{prop}] phase {phase_name} depth {depth}: transitions={ntrans} new_states={len(nxt)} seen={len(seen)} t={time.time() - t0:.1f}s")
                if not frontier:
                    done_depth = maxd
                    break
            res.depth_completed[phase_name] = done_depth
            all_seen |= seen
    finally:
        pool.terminate()
        pool.join()
    res.states = len(all_seen)
    res.nontrivial_states = len(nontrivial_keys)
    return res
