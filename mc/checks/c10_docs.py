"""C10, documents / containers / XML parts: clone equal at birth, independent for life."""

from __future__ import annotations

import copy
import io
import itertools
import os
import shutil
import tempfile
import zipfile

from lxml import etree

from odfdo import Document, Element, Paragraph, Style
from odfdo.container import Container

from ..engine import digest
from ..machines.packages import IMG, SAMPLES, c14n, strip_generator, tmpdir

XMLNAMES = ("content.xml", "styles.xml", "meta.xml", "settings.xml", "META-INF/manifest.xml")


# ------------------------------------------------------------------ snapshots
def canon_bytes(name, data):
    if data is None:
        return ("deleted",)
    if name in XMLNAMES:
        try:
            r = etree.fromstring(data)
            strip_generator(r)
            return ("xml", digest(c14n(r)))
        except Exception:
            pass
    return ("bin", digest(data))


def container_snapshot(c):
    parts = getattr(c, "_Container__parts")
    names = set(parts)
    try:
        names |= set(c.get_parts())
    except Exception:
        pass
    snap = {}
    for n in sorted(names):
        if n in parts and parts[n] is None:
            snap[n] = ("deleted",)
            continue
        try:
            snap[n] = canon_bytes(n, c.get_part(n))
        except Exception as e:
            snap[n] = ("raises", type(e).__name__)
    return snap


def doc_snapshot(doc):
    snap = container_snapshot(doc.container)
    for path, part in getattr(doc, "_Document__xmlparts").items():
        if part is None:
            continue
        try:
            snap[path] = canon_bytes(path, part.serialize())
        except Exception as e:
            snap[path] = ("raises", type(e).__name__)
    return snap


# ------------------------------------------------------------------ seeds and ops
def doc_seeds():
    s = [("template", "text"), ("template", "spreadsheet"), ("zip", "example.odt"), ("zip", "frame_image.odp"), ("bytesio", "simple_table.ods"), ("folder", "example.odt")]
    return s


def open_doc(seed):
    kind, name = seed
    if kind == "template":
        return Document(name)
    if kind == "zip":
        return Document(str(SAMPLES / name))
    if kind == "bytesio":
        return Document(io.BytesIO((SAMPLES / name).read_bytes()))
    folder = os.path.join(tmpdir(), f"c10_{name}.folder")
    if not os.path.isdir(folder):
        with zipfile.ZipFile(SAMPLES / name) as zf:
            zf.extractall(folder)
    return Document(folder)


PREPS = ["untouched", "body-read", "edited", "saved", "set_part", "del_part"]
DOC_OPS = ["edit_body", "edit_meta", "insert_style", "set_part_bin", "del_part_bin", "add_file", "save", "read_all"]


def first_bin(doc):
    for n in sorted(doc.get_parts()):
        if n != "mimetype" and not n.endswith(("/", ".xml", ".rdf")):
            parts = getattr(doc.container, "_Container__parts")
            if parts.get(n, b"") is not None:
                return n
    return None


def do_op(doc, op):
    if op == "edit_body":
        doc.body.append(Paragraph("MCMARK"))
    elif op == "edit_meta":
        doc.meta.title = "MCTITLE"
    elif op == "insert_style":
        doc.insert_style(Style("paragraph", name="MCSTYLE"))
    elif op == "set_part_bin":
        doc.set_part("Pictures/mcnew.bin", b"\x00new")
    elif op == "del_part_bin":
        n = first_bin(doc)
        if n:
            doc.del_part(n)
    elif op == "add_file":
        doc.add_file(str(IMG))
    elif op == "save":
        doc.save(io.BytesIO())
    elif op == "read_all":
        for n in doc.get_parts():
            try:
                doc.get_part(n)
            except Exception:
                pass
    else:
        raise AssertionError(op)


def prepare(seed, prep):
    doc = open_doc(seed)
    if prep == "body-read":
        doc.body
    elif prep == "edited":
        doc.body.append(Paragraph("EDIT0"))
        doc.meta.title = "EDIT0"
    elif prep == "saved":
        doc.body.append(Paragraph("EDIT0"))
        doc.save(io.BytesIO())
    elif prep == "set_part":
        doc.set_part("Pictures/pre.bin", b"pre")
    elif prep == "del_part":
        n = first_bin(doc)
        if n:
            doc.del_part(n)
    return doc


def safe(f, *a):
    try:
        f(*a)
        return None
    except Exception as e:
        return type(e).__name__


def doc_task(task):
    seed, prep = task
    fails = []
    nev = 0
    pairs = set()

    def fail(cls, oracle, exp, act, symptom, **kw):
        fails.append({"signature": f"site=Document.clone; class={cls}; symptom={symptom}",
                      "replay": {"replay_module": "mc.checks.c10", "object": "document", "seed": list(seed), "prep": prep, "history": [], **kw,
                                 "oracle": oracle, "expected": exp, "actual": act}})

    cls0 = f"opened={seed[0]},{prep}"
    # birth
    doc = prepare(seed, prep)
    before = doc_snapshot(doc)
    try:
        c = doc.clone
    except Exception as e:
        fail(cls0, "clone-raises", "no exception", type(e).__name__, f"raises:{type(e).__name__}")
        return nev, fails, 0
    nev += 1
    after = doc_snapshot(doc)
    if after != before:
        diff = sorted(k for k in set(before) | set(after) if before.get(k) != after.get(k))
        fail(cls0, "original-unchanged-by-clone", "unchanged", diff, "clone-modified-original")
    cs = doc_snapshot(c)
    if cs != before:
        diff = sorted(k for k in set(before) | set(cs) if before.get(k) != cs.get(k))
        fail(cls0, "equal-at-birth", "same parts", diff, "clone-differs-at-birth")
        return nev, fails, 0
    if c.container is doc.container or getattr(c.container, "_Container__parts") is getattr(doc.container, "_Container__parts"):
        fail(cls0, "identity", "own container", "shared", "shared-container-object")
    # a clone of the clone, taken at once
    try:
        doc2 = prepare(seed, prep)
        c2 = doc2.clone.clone
        nev += 1
        cs2 = doc_snapshot(c2)
        if cs2 != before:
            diff = sorted(k for k in set(before) | set(cs2) if before.get(k) != cs2.get(k))
            fail(cls0, "clone-of-clone-equal", "same parts", diff, "clone-of-clone-differs")
    except Exception as e:
        fail(cls0, "clone-of-clone", "no exception", type(e).__name__, f"clone-of-clone-raises:{type(e).__name__}")

    # alone references
    alone_o, alone_c = {}, {}
    for a in DOC_OPS:
        d = prepare(seed, prep)
        d.clone  # cloning may load parts; keep the same pre-state as in the twin runs
        e = safe(do_op, d, a)
        alone_o[a] = (e, doc_snapshot(d))
        d = prepare(seed, prep)
        cc = d.clone
        e = safe(do_op, cc, a)
        alone_c[a] = (e, doc_snapshot(cc))
    for a, b in itertools.product(DOC_OPS, DOC_OPS):
        for order in ("ab", "ba"):
            d = prepare(seed, prep)
            cc = d.clone
            nev += 1
            if order == "ab":
                ea = safe(do_op, d, a)
                eb = safe(do_op, cc, b)
            else:
                eb = safe(do_op, cc, b)
                ea = safe(do_op, d, a)
            pairs.add((a, b, order))
            so, sc = (ea, doc_snapshot(d)), (eb, doc_snapshot(cc))
            if so != alone_o[a]:
                diff = sorted(k for k in set(so[1]) | set(alone_o[a][1]) if so[1].get(k) != alone_o[a][1].get(k))
                fail(cls0, "original-independent", "original == original run alone", diff or [so[0], alone_o[a][0]], "original-depends-on-clone", a=a, b=b, order=order)
            if sc != alone_c[b]:
                diff = sorted(k for k in set(sc[1]) | set(alone_c[b][1]) if sc[1].get(k) != alone_c[b][1].get(k))
                fail(cls0, "clone-independent", "clone == clone run alone", diff or [sc[0], alone_c[b][0]], "clone-depends-on-original", a=a, b=b, order=order)
    return nev, fails, len(pairs)


# ------------------------------------------------------------------ containers
def container_task(task):
    kind, name, prep = task
    fails = []
    nev = 0

    def mk():
        if kind == "zip":
            c = Container(str(SAMPLES / name))
        elif kind == "bytesio":
            c = Container(io.BytesIO((SAMPLES / name).read_bytes()))
        else:
            folder = os.path.join(tmpdir(), f"c10c_{name}.folder")
            if not os.path.isdir(folder):
                with zipfile.ZipFile(SAMPLES / name) as zf:
                    zf.extractall(folder)
            c = Container(folder)
        if prep == "read-one":
            c.get_part("content.xml")
        elif prep == "set_part":
            c.set_part("content.xml", b"<a/>")
            c.set_part("new.bin", b"n")
        elif prep == "del_part":
            c.del_part("meta.xml")
        return c

    def fail(oracle, exp, act, symptom, **kw):
        fails.append({"signature": f"site=Container.clone; class=opened={kind},{prep}; symptom={symptom}",
                      "replay": {"replay_module": "mc.checks.c10", "object": "container", "kind": kind, "name": name, "prep": prep, "history": [], **kw,
                                 "oracle": oracle, "expected": exp, "actual": act}})

    c = mk()
    before = container_snapshot(mk())
    try:
        cc = c.clone
    except Exception as e:
        fail("clone-raises", "no exception", type(e).__name__, f"raises:{type(e).__name__}")
        return nev, fails, 0
    nev += 1
    if container_snapshot(c) != before:
        a = container_snapshot(c)
        fail("original-unchanged-by-clone", "unchanged", sorted(k for k in set(a) | set(before) if a.get(k) != before.get(k)), "clone-modified-original")
    s2 = container_snapshot(cc)
    if s2 != before:
        fail("equal-at-birth", "same parts", sorted(k for k in set(s2) | set(before) if s2.get(k) != before.get(k)), "clone-differs-at-birth")
        return nev, fails, 0
    try:
        nev += 1
        s3 = container_snapshot(mk().clone.clone)
        if s3 != before:
            fail("clone-of-clone-equal", "same parts", sorted(k for k in set(s3) | set(before) if s3.get(k) != before.get(k)), "clone-of-clone-differs")
    except Exception as e:
        fail("clone-of-clone", "no exception", type(e).__name__, f"clone-of-clone-raises:{type(e).__name__}")
    ops = [("set_part", "content.xml", b"<b/>"), ("set_part", "x.bin", b"x"), ("del_part", "styles.xml"), ("get_part", "settings.xml")]

    def do(cont, op):
        if op[0] == "set_part":
            cont.set_part(op[1], op[2])
        elif op[0] == "del_part":
            cont.del_part(op[1])
        else:
            cont.get_part(op[1])

    for target in ("orig", "clone"):
        for op in ops:
            c = mk()
            cc = c.clone
            po, pc = container_snapshot(c), container_snapshot(cc)
            nev += 1
            safe(do, c if target == "orig" else cc, op)
            if target == "orig" and container_snapshot(cc) != pc:
                fail("clone-independent", "clone unchanged", "changed", "clone-follows-original", a=list(op[:2]))
            if target == "clone" and container_snapshot(c) != po:
                fail("original-independent", "original unchanged", "changed", "original-follows-clone", b=list(op[:2]))
    return nev, fails, len(ops) * 2


# ------------------------------------------------------------------ XML parts
def part_task(task):
    seed, partname, prep = task
    fails = []
    nev = 0

    def mk():
        doc = open_doc(seed)
        part = doc.get_part(partname)
        if prep == "root-read":
            part.root
        elif prep == "edited":
            part.root.set_attribute("office:version", "9.9")
        return doc, part

    def fail(oracle, exp, act, symptom, **kw):
        fails.append({"signature": f"site=XmlPart.clone; class=part={partname},{prep}; symptom={symptom}",
                      "replay": {"replay_module": "mc.checks.c10", "object": "xmlpart", "seed": list(seed), "part": partname, "prep": prep, "history": [], **kw,
                                 "oracle": oracle, "expected": exp, "actual": act}})

    doc, part = mk()
    s0 = part.serialize()
    try:
        cl = part.clone
    except Exception as e:
        fail("clone-raises", "no exception", type(e).__name__, f"raises:{type(e).__name__}")
        return nev, fails, 0
    nev += 1
    if part.serialize() != s0:
        fail("original-unchanged-by-clone", "unchanged", "changed", "clone-modified-original")
    try:
        sc = cl.serialize()
        rc = cl.root.serialize()
    except Exception as e:
        fail("clone-usable", "no exception", type(e).__name__, f"clone-raises:{type(e).__name__}")
        return nev, fails, 0
    if canon_bytes(partname + ".xml" if False else "content.xml", sc) != canon_bytes("content.xml", s0):
        fail("equal-at-birth", "same serialisation", "differs", "clone-differs-at-birth")
    if rc != part.root.serialize():
        fail("equal-at-birth-root", "same root", "differs", "clone-root-differs-at-birth")
    # a clone of a clone (taken before the first clone was touched, and after its serialize()):
    # "indistinguishable from the original when taken" holds along chains
    for touch in ("untouched", "serialized"):
        doc, part = mk()
        nev += 1
        try:
            c1 = part.clone
            if touch == "serialized":
                c1.serialize()
            c2 = c1.clone
            if canon_bytes("content.xml", c2.serialize()) != canon_bytes("content.xml", part.serialize()) or c2.root.serialize() != part.root.serialize():
                fail("clone-of-clone-equal", "same serialisation and root as the original", "differs", "clone-of-clone-differs", chain=touch)
        except Exception as e:
            fail("clone-of-clone", "no exception", type(e).__name__, f"clone-of-clone-raises:{type(e).__name__}", chain=touch)
    # independence
    for target in ("orig", "clone"):
        doc, part = mk()
        cl = part.clone
        po, pc = part.serialize(), cl.serialize()
        nev += 1
        tgt = part if target == "orig" else cl
        tgt.root.set_attribute("office:version", "7.7")
        if target == "orig" and cl.serialize() != pc:
            fail("clone-independent", "clone unchanged", "changed", "clone-follows-original")
        if target == "clone" and part.serialize() != po:
            fail("original-independent", "original unchanged", "changed", "original-follows-clone")
        if tgt.serialize() == (po if target == "orig" else pc):
            fail("edit-visible", "edited twin serialises its edit", "unchanged serialisation", "edit-on-twin-not-serialised")
    return nev, fails, 2


# ------------------------------------------------------------------ generic element clones
ELEMENT_DOCS = ["example.odt", "frame_image.odp", "simple_table.ods", "toc.odt", "note.odt", "base_shapes.odg", "list.odt", "user_fields.odt", "tracked_changes.odt", "variable.odt", "chart.odt", "background.odp"]
ELEMENT_MUTATIONS = ["set-attribute", "set-text", "append-child", "clear", "delete-first-child", "set-tail"]


def _mutate(e, how):
    if how == "set-attribute":
        e.set_attribute("text:style-name", "ZZ-clone-test")
    elif how == "set-text":
        e.text = "changed by the clone test"
    elif how == "append-child":
        e._Element__element.append(Element.from_tag("<text:span>zz</text:span>")._Element__element)
    elif how == "clear":
        e.clear()
    elif how == "delete-first-child":
        kids = e.children
        if kids:
            e.delete(kids[0])
        else:
            e.text = "no child"
    elif how == "set-tail":
        e.tail = "tail set on one twin"


def element_task(name):
    """Every element class met in the body / styles of a sample document (first instances of each
    class, with and without children / tail): clone, birth checks, then each mutation on one twin."""
    fails = []
    nev = 0
    path = str(SAMPLES / name)
    if not os.path.exists(path):
        return 0, [], 0

    def fail(cls, oracle, exp, act, symptom, **kw):
        fails.append({"signature": f"site=Element.clone; class={cls}; symptom={symptom}",
                      "replay": {"replay_module": "mc.checks.c10", "object": "element", "name": name, "history": [], "oracle": oracle, "expected": str(exp)[:200], "actual": str(act)[:200], **kw}})

    def picks(doc):
        seen = {}
        out = []
        for root in (doc.body, doc.styles.root):
            for i, e in enumerate(root.get_elements("descendant-or-self::*")):
                key = (type(e).__name__, bool(e.children), e.tail is not None)
                if seen.get(key, 0) >= 2:
                    continue
                seen[key] = seen.get(key, 0) + 1
                out.append((root is doc.body, i))
        return out

    doc0 = Document(path)
    plist = picks(doc0)
    classes = set()

    def fetch(doc, in_body, i):
        root = doc.body if in_body else doc.styles.root
        return root.get_elements("descendant-or-self::*")[i]

    for in_body, i in plist:
        doc0 = Document(path)
        e = fetch(doc0, in_body, i)
        cname = type(e).__name__
        classes.add(cname)
        nev += 1
        whole_before = etree.tostring((doc0.body if in_body else doc0.styles.root)._Element__element)
        try:
            c = e.clone
            if etree.tostring((doc0.body if in_body else doc0.styles.root)._Element__element) != whole_before:
                fail(cname, "cloning-is-a-read", "document unchanged", "changed", "cloning-changed-the-document", index=i)
                continue
        except Exception as ex:
            fail(cname, "clone-raises", "no exception", f"{type(ex).__name__}: {ex}", f"raises:{type(ex).__name__}", index=i)
            continue
        if type(c) is not type(e):
            fail(cname, "same-class", cname, type(c).__name__, "clone-of-another-class", index=i)
        if c.serialize() != e.serialize():
            fail(cname, "equal-at-birth", e.serialize()[:150], c.serialize()[:150], "clone-differs-at-birth", index=i)
        # (a clone hangs under a technical root that carries the namespace declarations)
        if c._Element__element.getroottree().getroot() is e._Element__element.getroottree().getroot():
            fail(cname, "detached", "a tree of its own", "inside the original's tree", "clone-in-the-original-tree", index=i)
        if c._Element__element is e._Element__element:
            fail(cname, "copy", "another element", "the same lxml element", "clone-is-the-original", index=i)
        for how in ELEMENT_MUTATIONS:
            for target in ("clone", "orig"):
                nev += 1
                doc = Document(path)
                try:
                    e = fetch(doc, in_body, i)
                except IndexError:
                    continue
                whole0 = etree.tostring((doc.body if in_body else doc.styles.root)._Element__element)
                try:
                    c = e.clone
                    c0, e0 = c.serialize(with_ns=True), e.serialize(with_ns=True)
                    _mutate(c if target == "clone" else e, how)
                except Exception:
                    continue  # the mutation itself is not defined for this element (judged elsewhere)
                if target == "clone":
                    if e.serialize(with_ns=True) != e0 or etree.tostring((doc.body if in_body else doc.styles.root)._Element__element) != whole0:
                        fail(cname, "original-independent", "original unchanged", how, "original-follows-clone", index=i, mutation=how)
                else:
                    if c.serialize(with_ns=True) != c0:
                        fail(cname, "clone-independent", "clone unchanged", how, "clone-follows-original", index=i, mutation=how)
    return nev, fails, len(classes)


def run(tier, pool):
    base = tempfile.mkdtemp(prefix="odfdo_verif_", dir="/dev/shm" if os.path.isdir("/dev/shm") else None)
    os.environ["MC_TMP"] = base
    try:
        dtasks = [(s, p) for s in doc_seeds() for p in PREPS]
        ctasks = [(k, n, p) for k, n in (("zip", "example.odt"), ("bytesio", "example.odt"), ("folder", "example.odt"), ("zip", "frame_image.odp")) for p in ("untouched", "read-one", "set_part", "del_part")]
        ptasks = [(s, pn, p) for s in (("template", "text"), ("zip", "example.odt"), ("folder", "example.odt")) for pn in ("content", "styles", "meta", "manifest") for p in ("untouched", "root-read", "edited")]
        fails, nev, nt = [], 0, 0
        import multiprocessing as mp

        # a fresh pool: MC_TMP must be in the workers' environment
        with mp.get_context("fork").Pool(min(16, os.cpu_count() or 1)) as pool2:
            for a, f, p in pool2.imap(doc_task, dtasks):
                nev += a
                fails.extend(f)
                nt = max(nt, p)
            for a, f, p in pool2.imap(container_task, ctasks):
                nev += a
                fails.extend(f)
            for a, f, p in pool2.imap(part_task, ptasks):
                nev += a
                fails.extend(f)
            etasks = ELEMENT_DOCS if tier != "quick" else ELEMENT_DOCS[:5]
            ncls = 0
            for a, f, p in pool2.imap(element_task, etasks):
                nev += a
                fails.extend(f)
                ncls += p
        return fails, {"evaluations": nev, "states": len(dtasks) + len(ctasks) + len(ptasks), "distinct_nontrivial": nt,
                       "document_states": len(dtasks), "container_states": len(ctasks), "xmlpart_states": len(ptasks),
                       "element_clone_documents": len(etasks), "element_classes_cloned": ncls}
    finally:
        shutil.rmtree(base, ignore_errors=True)


def replay(rp):
    base = tempfile.mkdtemp(prefix="odfdo_verif_", dir="/dev/shm" if os.path.isdir("/dev/shm") else None)
    os.environ["MC_TMP"] = base
    try:
        if rp["object"] == "element":
            n, f, _ = element_task(rp["name"])
        elif rp["object"] == "document":
            n, f, _ = doc_task((tuple(rp["seed"]), rp["prep"]))
        elif rp["object"] == "container":
            n, f, _ = container_task((rp["kind"], rp["name"], rp["prep"]))
        else:
            n, f, _ = part_task((tuple(rp["seed"]), rp["part"], rp["prep"]))
        hits = [x for x in f if x["replay"]["oracle"] == rp["oracle"]]
        for h in hits[:3]:
            print("FAIL", h["signature"], h["replay"]["expected"], h["replay"]["actual"])
        return 1 if hits else 0
    finally:
        shutil.rmtree(base, ignore_errors=True)
