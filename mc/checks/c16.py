"""C16: search and replace act on the text exactly as the regular expression says."""

from __future__ import annotations

import multiprocessing as mp
import os
import re
import time

from lxml import etree

from .. import report
from ..machines import paragraphs as PF
from ..models import odfws

PATTERNS = ["a", "ab", "[ab]", "a+", "a|d", "^a", "b$", r"\s+", " ", "zz", "c", "b ", "(a)(b)?", r"(?i)A"]
REPL = ["", "X", "X Y", "  ", "a\tb\nc", " Z", "Z ", r"<\1>", r"\g<0>\g<0>", "a"]  # "a": equal to what several patterns match
TEXTNS = odfws.TEXT
FORMATTED_HOLDERS = {"{%s}p" % TEXTNS, "{%s}h" % TEXTNS, "{%s}span" % TEXTNS}


def all_text_nodes(root):
    """(element, 'text'|'tail', string) in document order, every descendant text node."""
    out = []

    def walk(e):
        if e.text:
            out.append((e, "text", e.text))
        for ch in e:
            if isinstance(ch.tag, str):
                walk(ch)
            if ch.tail:
                out.append((ch, "tail", ch.tail))

    walk(root)
    return out


def strings_of(root):
    """Per element (document order): (tag, attrib, text or '', tail or '')."""
    out = []
    for e in root.iter():
        if isinstance(e.tag, str):
            out.append((e.tag, tuple(sorted(e.attrib.items())), e.text or "", (e.tail or "") if e is not root else ""))
    return out


def expected_projection(root, rx, new):
    """Projection after substituting every text node (white-space elements kept)."""
    out = []

    def walk(e):
        if e.text:
            out.append(rx.sub(new, e.text))
        for ch in e:
            if not isinstance(ch.tag, str):
                continue
            if ch.tag == odfws.S:
                try:
                    n = int(ch.get("{%s}c" % TEXTNS, "1"))
                except ValueError:
                    n = 1
                out.append(" " * n)
            elif ch.tag == odfws.TAB:
                out.append("\t")
            elif ch.tag == odfws.LB:
                out.append("\n")
            else:
                walk(ch)
            if ch.tail:
                out.append(rx.sub(new, ch.tail))

    walk(root)
    return "".join(out)


def holder_of(e, kind):
    return e if kind == "text" else e.getparent()


def work(items):
    fails = []
    nev = 0
    classes = set()

    def rec(site, cls, oracle, exp, act, symptom, detail):
        fails.append({"signature": f"site={site}; class={cls}; symptom={symptom}",
                      "replay": {"replay_module": "mc.checks.c16", "items": list(items), "history": [], **detail,
                                 "oracle": oracle, "expected": exp, "actual": act}})

    p0 = PF.build(items)
    root0 = p0._Element__element
    T = odfws.raw_text(root0)
    pre_xml = etree.tostring(root0)
    # the string searches index: the readable text; a link is shown by odfdo as "[text](url)"
    # (Link.__str__), so with links the element's own inner_text is the reference
    has_link = any(True for _ in root0.iter("{%s}a" % TEXTNS))
    TS = p0.inner_text if has_link else T
    if not has_link and p0.inner_text != T:
        rec("Element.inner_text", "search", "inner_text", T, p0.inner_text, "inner_text-differs-from-projection", {})
    # ---- searches
    for pat in PATTERNS:
        rx = re.compile(pat)
        nev += 1
        p = PF.build(items)
        m = rx.search(TS)
        exp = {
            "search": m.start() if m else None,
            "search_first": (m.start(), m.end()) if m else None,
            "search_all": [(x.start(), x.end()) for x in rx.finditer(TS)],
            "match": m is not None,
        }
        try:
            got = {"search": p.search(pat), "search_first": p.search_first(pat), "search_all": p.search_all(pat), "match": p.match(pat)}
        except Exception as e:
            got = {"raises": type(e).__name__}
        if got != exp:
            k = next((k for k in exp if exp[k] != got.get(k)), "raises")
            rec(f"Element.{k}", "search", k, exp.get(k), got.get(k, got), "search-disagrees-with-re", {"pattern": pat})
        if etree.tostring(p._Element__element) != pre_xml:
            rec("Element.search", "search", "pure", "unchanged", "changed", "search-modified-element", {"pattern": pat})
    for a in range(0, len(TS) + 2):
        for b in [None] + list(range(0, len(TS) + 2)):
            nev += 1
            p = PF.build(items)
            exp = TS[a:] if b is None else TS[a : max(a, b)]
            try:
                got = p.text_at(a, b)
            except Exception as e:
                got = f"raises:{type(e).__name__}"
            if got != exp:
                rec("Element.text_at", "text_at", "text_at", exp, got, "text_at-disagrees", {"start": a, "end": b})
    # ---- replace
    nodes0 = all_text_nodes(root0)
    for pat in PATTERNS:
        rx = re.compile(pat)
        per_node = [len(list(rx.finditer(s))) for _, _, s in nodes0]
        total = sum(per_node)
        # count only
        nev += 1
        p = PF.build(items)
        try:
            c = p.replace(pat)
        except Exception as e:
            c = f"raises:{type(e).__name__}"
        if c != total:
            rec("Element.replace(count)", "count", "count", total, c, "count-differs", {"pattern": pat})
        if etree.tostring(p._Element__element) != pre_xml:
            rec("Element.replace(count)", "count", "pure", "unchanged", "changed", "counting-modified-element", {"pattern": pat})
        for new in REPL:
            if "\\1" in new and rx.groups == 0:
                continue  # a reference to a group the pattern does not have: re.error by definition
            for formatted in (False, True):
                nev += 1
                p = PF.build(items)
                root = p._Element__element
                pre = etree.fromstring(pre_xml)
                # where do the matches sit?
                hit_kinds = set()
                for (e, kind, s), k in zip(all_text_nodes(pre), per_node):
                    if k:
                        h = holder_of(e, kind)
                        in_holder = h is not None and h.tag in FORMATTED_HOLDERS
                        prev_ws = kind == "tail" and e.tag in (odfws.S, odfws.TAB, odfws.LB)
                        hit_kinds.add(("tail" if kind == "tail" else "text") + ("-after-ws-element" if prev_ws else "") + ("" if in_holder else "-in-other-container"))
                ws_in_new = any(ch in new for ch in " \t\n")
                cls = ("formatted" if formatted else "raw") + "," + ("+".join(sorted(hit_kinds)) or "no-match") + ("," + ("ws-in-replacement" if ws_in_new else "plain-replacement"))
                classes.add(cls)
                detail = {"pattern": pat, "new": new, "formatted": formatted}
                try:
                    c = p.replace(pat, new, formatted=formatted)
                except Exception as e:
                    rec("Element.replace", cls, "raises", "no exception", type(e).__name__, f"raises:{type(e).__name__}", detail)
                    continue
                if c != total:
                    rec("Element.replace", cls, "count", total, c, "count-differs", detail)
                    continue
                if not formatted:
                    exp_tree = etree.fromstring(pre_xml)
                    for e in exp_tree.iter():
                        if not isinstance(e.tag, str):
                            continue
                        if e.text:
                            e.text = rx.sub(new, e.text)
                        if e.tail and e is not exp_tree:
                            e.tail = rx.sub(new, e.tail)
                    if strings_of(root) != strings_of(exp_tree):
                        rec("Element.replace", cls, "per-node-subn", strings_of(exp_tree), strings_of(root), "not-the-per-node-substitution", detail)
                else:
                    expT = expected_projection(pre, rx, new)
                    gotT = odfws.raw_text(root)
                    if gotT != expT:
                        rec("Element.replace", cls, "formatted-text", expT, gotT, "formatted-text-differs", detail)
                        continue
                    # markup stays in place: same non white-space elements in the same order
                    def marks(r):
                        return [(e.tag, tuple(sorted(e.attrib.items()))) for e in r.iter() if isinstance(e.tag, str) and e.tag not in (odfws.S, odfws.TAB, odfws.LB)]
                    if marks(root) != marks(pre):
                        rec("Element.replace", cls, "markup-in-place", marks(pre), marks(root), "markup-changed", detail)
                        continue
                    only_holders = all("other-container" not in k for k in hit_kinds)
                    if total and only_holders and not odfws.is_normal_form(root):
                        rec("Element.replace", cls, "formatted-normal-form", expT, odfws.collapsed_text(root), "not-in-white-space-normal-form", detail)
    return nev, fails, classes


def run(prop, tier, vseed):
    t0 = time.time()
    fam = PF.family(3, PF.FULL_SP) if tier == "quick" else PF.family(3, PF.FULL_SP) + PF.family(4, ["ab", "a b", "s2", "span2", "link", "tab", "spanws", "sp"])
    fam = list(dict.fromkeys(fam))
    nproc = int(os.environ.get("VERIF_NPROC", "0")) or min(16, os.cpu_count() or 1)
    nev = 0
    failures = []
    classes = set()
    with mp.get_context("fork").Pool(nproc) as pool:
        for a, f, c in pool.imap_unordered(work, fam, chunksize=4):
            nev += a
            failures.extend(f)
            if len(failures) > 20000:
                failures = report.compact(failures)
            classes |= c
    cov = {
        "states": len(fam),
        "transitions": nev,
        "traces_validated_against_impl": len(fam),
        "evaluations": nev,
        "distinct_nontrivial": len(classes),
        "rule": "paragraph family x pattern family x replacement strings x formatted in {False, True}, plus search/search_first/search_all/match for every pattern and text_at for every (start, end); distinct_nontrivial = distinct (formatted, where the matches sit, white space in replacement) classes",
        "patterns": PATTERNS,
        "replacements": REPL,
        "samples": [{"items": list(fam[len(fam) // 3]), "pattern": "a|d", "new": "X Y", "formatted": True}],
        "exhaustive": True,
    }
    assume = ["lxml, CPython trusted", "patterns that can match the empty string are excluded (as in the statement)",
              "formatted=True is required to give white-space normal form only where the text is held by a paragraph, heading or span (docstring)"]
    return report.conclude(prop, tier, vseed, failures, cov, assume, t0)


def replay(rp):
    n, f, _ = work(tuple(rp["items"]))
    keys = ("pattern", "new", "formatted", "start", "end")
    hits = [x for x in f if all(x["replay"].get(k) == rp.get(k) for k in keys) and x["replay"]["oracle"] == rp["oracle"]]
    for h in hits[:3]:
        print("FAIL", h["signature"], h["replay"]["expected"], h["replay"]["actual"])
    return 1 if hits else 0
