"""C08: table getters return correctly addressed, expanded, detached copies.

For every table state reached by the C01 table machine inside the bound
(all seed encodings; their successors by one op), every getter, every
coordinate (in / edge / beyond; tuple and string forms) and every mutation of
every returned object is enumerated.
"""

from __future__ import annotations

import hashlib
import multiprocessing as mp
import os
import time

from lxml import etree

from odfdo import Cell, Column, Row, Table

from .. import engine, report
from ..machines.tables import TableMachine
from ..models import tableread as TR
from ..models.grid import GridModel

TM = None


def snap(t):
    """Everything a later read could depend on, except which wrappers are cached."""
    elem = t._Element__element
    rows = TR.table_rows(elem)
    cr = []
    for idx in sorted(t._indexes["_tmap"]):
        w = t._indexes["_tmap"][idx]
        ok = idx < len(rows) and w._Element__element is rows[idx]
        cr.append((idx, ok, tuple(w._rmap)))
    return (etree.tostring(elem), tuple(t._tmap), tuple(t._cmap), tuple(cr))


def content(t):
    elem = t._Element__element
    return (etree.tostring(elem), tuple(t._tmap), tuple(t._cmap), tuple(t.size))


def alpha(x):
    s = ""
    x += 1
    while x:
        s = chr(65 + (x - 1) % 26) + s
        x = (x - 1) // 26
    return s


# ---------------------------------------------------------------- getter cases
# each case: (id, fn(t, W, H) -> list of (obj, kind, x, y, expanded, documented_copy))
def getter_cases(W, H):
    cases = []
    xs = list(range(W + 2))
    ys = list(range(H + 2))

    def mk_get_cell(x, y, form):
        def f(t):
            coord = (x, y) if form == "tuple" else f"{alpha(x)}{y + 1}"
            return [(t.get_cell(coord), "cell", x, y, False, True)]
        return f

    for y in ys:
        for x in xs:
            cases.append((f"get_cell[({x},{y})]", mk_get_cell(x, y, "tuple")))
    cases.append((f"get_cell['{alpha(1)}2']", mk_get_cell(1, 1, "str")))
    cases.append((f"get_cell[str beyond]", mk_get_cell(W + 1, H + 1, "str")))

    def mk_get_cell_nr(x, y):
        def f(t):
            return [(t.get_cell((x, y), keep_repeated=False), "cell", x, y, True, True)]
        return f

    for y in ys[:-1]:
        for x in xs[:-1]:
            cases.append((f"get_cell_norepeat[({x},{y})]", mk_get_cell_nr(x, y)))

    def mk_get_row(y, form):
        def f(t):
            return [(t.get_row(y if form == "int" else str(y + 1)), "row", None, y, False, True)]
        return f

    for y in ys:
        cases.append((f"get_row[{y}]", mk_get_row(y, "int")))
    cases.append(("get_row['2']", mk_get_row(1, "str")))

    def rows_case(name, call, y0):
        def f(t):
            return [(r, "row", None, y0 + i, True, True) for i, r in enumerate(call(t))]
        return (name, f)

    cases.append(rows_case("traverse()", lambda t: list(t.traverse()), 0))
    cases.append(rows_case("traverse(1,1)", lambda t: list(t.traverse(start=1, end=1)), 1))
    cases.append(rows_case("traverse(1,H+1)", lambda t: list(t.traverse(start=1, end=H + 1)), 1))
    cases.append(rows_case("rows", lambda t: t.rows, 0))
    cases.append(rows_case("get_rows()", lambda t: t.get_rows(), 0))
    cases.append(rows_case("get_rows((1,2))", lambda t: t.get_rows((1, 2)), 1))
    cases.append(rows_case("get_rows('2:3')", lambda t: t.get_rows("2:3"), 1))

    def cells_case(name, call, x0, y0):
        def f(t):
            out = []
            for j, row in enumerate(call(t)):
                for i, c in enumerate(row):
                    out.append((c, "cell", x0 + i, y0 + j, True, True))
            return out
        return (name, f)

    cases.append(cells_case("cells", lambda t: t.cells, 0, 0))
    cases.append(cells_case("get_cells()", lambda t: t.get_cells(), 0, 0))
    cases.append(cells_case("get_cells((1,1,2,2))", lambda t: t.get_cells((1, 1, 2, 2)), 1, 1))
    cases.append(cells_case("get_cells('B1:C2')", lambda t: t.get_cells("B1:C2"), 1, 0))
    cases.append(cells_case("get_cells((0,0,W+1,H+1))", lambda t: t.get_cells((0, 0, W + 1, H + 1)), 0, 0))

    def flat_case():
        def f(t):
            # flat=True: cells in row-major order; coordinates read from the row lengths
            cells = t.get_cells(flat=True)
            return [(c, "cell", None, None, True, True) for c in cells]
        return ("get_cells(flat)", f)

    cases.append(flat_case())

    def cols_case(name, call, x0):
        def f(t):
            return [(c, "column", x0 + i, None, True, True) for i, c in enumerate(call(t))]
        return (name, f)

    cases.append(cols_case("columns", lambda t: t.columns, 0))
    cases.append(cols_case("get_columns()", lambda t: t.get_columns(), 0))
    cases.append(cols_case("traverse_columns()", lambda t: list(t.traverse_columns()), 0))
    cases.append(cols_case("traverse_columns(1,2)", lambda t: list(t.traverse_columns(start=1, end=2)), 1))
    cases.append(cols_case("traverse_columns(1,None)", lambda t: list(t.traverse_columns(start=1)), 1))

    def mk_get_column(x, form):
        def f(t):
            return [(t.get_column(x if form == "int" else alpha(x)), "column", x, None, False, True)]
        return f

    for x in xs:
        cases.append((f"get_column[{x}]", mk_get_column(x, "int")))
    cases.append(("get_column['B']", mk_get_column(1, "str")))

    def mk_col_cells(x):
        def f(t):
            return [(c, "cell", x, y, False, True) for y, c in enumerate(t.get_column_cells(x))]
        return f

    for x in xs:
        cases.append((f"get_column_cells[{x}]", mk_col_cells(x)))

    # filtered getters: the cells of the right type / content, at their own coordinates, as copies
    def is_num(v):
        return isinstance(v, (int, float)) and not isinstance(v, bool)

    def expected_positions(t, pred, x0=0, y0=0, x1=None, y1=None):
        mat = TR.table_matrix(t._Element__element)
        out = []
        for y, row in enumerate(mat):
            if y < y0 or (y1 is not None and y > y1):
                continue
            for x, v in enumerate(row):
                if x < x0 or (x1 is not None and x > x1):
                    continue
                if pred(v):
                    out.append((x, y))
        return out

    def filtered(name, call, pred, expanded=True, **area):
        def f(t):
            exp = expected_positions(t, pred, **area)
            got = call(t)
            flat = [c for row in got for c in row] if got and isinstance(got[0], list) else list(got)
            if len(flat) != len(exp):
                raise ValueError(f"{len(flat)} cells returned, {len(exp)} match the filter")
            return [(c, "cell", x, y, expanded, True) for c, (x, y) in zip(flat, exp)]
        return (name, f)

    cases.append(filtered("get_cells(cell_type=float)", lambda t: t.get_cells(cell_type="float"), is_num))
    cases.append(filtered("get_cells(cell_type=all)", lambda t: t.get_cells(cell_type="all"), lambda v: v is not None))
    cases.append(filtered("get_cells((1,0,2,2),cell_type=float)", lambda t: t.get_cells((1, 0, 2, 2), cell_type="float"), is_num, x0=1, x1=2, y0=0, y1=2))
    cases.append(filtered("get_cells(content='1')", lambda t: t.get_cells(content="1"), lambda v: v is not None and "1" in str(v)))
    cases.append(filtered("get_cells(flat,cell_type=float)", lambda t: t.get_cells(cell_type="float", flat=True), is_num))
    for x in xs[:3]:
        cases.append(filtered(f"get_column_cells[{x}](cell_type=float)", (lambda xx: lambda t: t.get_column_cells(xx, cell_type="float"))(x), is_num, expanded=False, x0=x, x1=x))
        cases.append(filtered(f"get_column_cells[{x}](cell_type=all)", (lambda xx: lambda t: t.get_column_cells(xx, cell_type="all"))(x), lambda v: v is not None, expanded=False, x0=x, x1=x))
        cases.append(filtered(f"get_column_cells[{x}](content='1')", (lambda xx: lambda t: t.get_column_cells(xx, content="1"))(x), lambda v: v is not None and "1" in str(v), expanded=False, x0=x, x1=x))

    # Row getters on a row taken from the table (clone) -- the row is the container
    def mk_row_get_cell(y, x):
        def f(t):
            r = t.get_row(y)
            return [(r.get_cell(x), "cell", x, y, False, True)], r
        return f

    for y in ys[:-1]:
        for x in xs:
            cases.append((f"Row[{y}].get_cell[{x}]", mk_row_get_cell(y, x)))

    def mk_row_list(y, name, call, x0):
        def f(t):
            r = t.get_row(y)
            return [(c, "cell", x0 + i, y, True, True) for i, c in enumerate(call(r))], r
        return (f"Row[{y}].{name}", f)

    for y in ys[:-1]:
        cases.append(mk_row_list(y, "traverse()", lambda r: list(r.traverse()), 0))
        cases.append(mk_row_list(y, "traverse(1,2)", lambda r: list(r.traverse(start=1, end=2)), 1))
        cases.append(mk_row_list(y, "cells", lambda r: r.cells, 0))
        cases.append(mk_row_list(y, "get_cells()", lambda r: r.get_cells(), 0))
        cases.append(mk_row_list(y, "get_cells((1,2))", lambda r: r.get_cells((1, 2)), 1))

    def row_filtered(y, name, call, pred):
        def f(t):
            r = t.get_row(y)
            mat = TR.table_matrix(t._Element__element)
            row = mat[y] if y < len(mat) else []
            exp = [x for x, v in enumerate(row) if pred(v)]
            got = call(r)
            if len(got) != len(exp):
                raise ValueError(f"{len(got)} cells returned, {len(exp)} match the filter")
            return [(c, "cell", x, y, True, True) for c, x in zip(got, exp)], r
        return (f"Row[{y}].{name}", f)

    for y in ys[:-1]:
        cases.append(row_filtered(y, "get_cells(cell_type=float)", lambda r: r.get_cells(cell_type="float"), is_num))
        cases.append(row_filtered(y, "get_cells(content='1')", lambda r: r.get_cells(content="1"), lambda v: v is not None and "1" in str(v)))
    return cases


def adopt_row(r):
    """The returned copy is attached as it is (clone=False) to another table, then changed there:
    a detached copy shares nothing with the table it was read from, so that table must not move."""
    other = Table("Other")
    other.append_row(Row(width=1))
    other.append_row(r, clone=False)
    r.repeated = 3
    other.get_values()


def adopt_cell(c):
    other = Row()
    other.append_cell(Cell(1))
    other.append_cell(c, clone=False)
    c.repeated = 3
    other.get_values()


def mutations(kind):
    if kind == "cell":
        return [
            ("set_value(99)", lambda c: c.set_value(99)),
            ("style", lambda c: setattr(c, "style", "zz")),
            ("clear", lambda c: c.clear()),
            ("repeated=3", lambda c: setattr(c, "repeated", 3)),
            ("adopted-by-another-row,repeated=3", adopt_cell),
        ]
    if kind == "row":
        return [
            ("set_value(0,99)", lambda r: r.set_value(0, 99)),
            ("append_cell", lambda r: r.append_cell(Cell(98))),
            ("delete_cell(0)", lambda r: r.delete_cell(0)),
            ("repeated=3", lambda r: setattr(r, "repeated", 3)),
            ("style", lambda r: setattr(r, "style", "zz")),
            ("clear", lambda r: r.clear()),
            ("adopted-by-another-table,repeated=3", adopt_row),
        ]
    return [
        ("style", lambda c: setattr(c, "style", "zz")),
        ("repeated=3", lambda c: setattr(c, "repeated", 3)),
        ("default_cell_style", lambda c: setattr(c, "default_cell_style", "zz")),
    ]


def row_is_repeated(runs, y):
    start = 0
    for k in runs:
        if y < start + k:
            return k > 1
        start += k
    return False


def oser(o):
    return etree.tostring(o._Element__element)


def work(task):
    """One table state: run all getter cases."""
    sidx, hist = task
    tm = TM
    seed = tm.seed_list[sidx]
    fails = []
    nev = 0
    nobj = 0
    nontrivial = set()

    def build():
        st = engine.run_history(tm, seed, hist)
        return st

    st = build()
    # states produced by the open finding F28 (repeated setters on bound objects) are
    # reported by C01/C02 and not explored here; every other state is, even when wrong
    if st.exc or any(o[0] in ("row_repeated", "cell_repeated") for o in hist):
        return (sidx, hist, 0, 0, [], 0)  # diverged under C01: reported there, not explored here
    st = build()
    W, H = st.model.width, st.model.height
    m = st.model
    elem = st.table._Element__element
    rowrep = any(TR._rep(r, TR.REP_R) > 1 for r in TR.table_rows(elem))
    cellrep = any(k > 1 for r in TR.table_rows(elem) for _, k in TR.row_runs(r))
    cached = bool(st.table._indexes["_tmap"])
    cls_state = ("rowrep" if rowrep else "norowrep") + "," + ("cellrep" if cellrep else "nocellrep") + ("," + "cached" if cached else "")

    def fail(case, oracle, exp, act, symptom, extra_cls=""):
        site = case.split("(")[0] if case.startswith("pushback") else case.split("(")[0].split("[")[0]
        if case.startswith("Row["):
            site = "Row." + case.split("].")[1].split("(")[0].split("[")[0]
        fails.append({
            "signature": f"site={site}; class={extra_cls or cls_state}; symptom={symptom}",
            "replay": {"replay_module": "mc.checks.c08", "seed": seed, "history": [list(o) for o in hist],
                       "case": case, "oracle": oracle, "expected": exp, "actual": act},
        })

    elem0_runs = [TR._rep(r, TR.REP_R) for r in TR.table_rows(elem)]
    dirty = False
    for case, fn in getter_cases(W, H):
        if dirty:
            st = build()
            dirty = False
        t = st.table
        before = content(t)
        try:
            res = fn(t)
        except Exception as e:
            fail(case, "getter-raises", "no exception", type(e).__name__, f"raises:{type(e).__name__}")
            dirty = True
            continue
        container = None
        if isinstance(res, tuple):
            res, container = res
        nev += 1
        after = content(t)
        if before != after:
            fail(case, "read-changed-table", "unchanged", "changed", "read-changed-table")
            dirty = True
            continue
        # (a) stamps, (b) expansion, (c) beyond = empty
        bad = False
        flat_xy = None
        if case == "get_cells(flat)":
            flat_xy = [(x, y) for y in range(H) for x in range(len(m.rows[y]))]
            if len(flat_xy) != len(res):
                fail(case, "count", len(flat_xy), len(res), "wrong-count")
                continue
        for j, (o, kind, x, y, expanded, doc) in enumerate(res):
            if flat_xy:
                x, y = flat_xy[j]
            nobj += 1
            if o is None:
                fail(case, "returns-None", "object", None, "returns-None")
                bad = True
                break
            if kind == "cell":
                if (o.x, o.y) != (x, y):
                    fail(case, "stamp", (x, y), (o.x, o.y), "wrong-xy-stamp")
                    bad = True
                    break
                exp_v = m.value(x, y)
                try:
                    got_v = o.get_value()
                except Exception as e:
                    got_v = f"raises:{type(e).__name__}"
                if got_v != exp_v:
                    fail(case, "value", exp_v, got_v, "wrong-value")
                    bad = True
                    break
            elif kind == "row":
                if o.y != y:
                    fail(case, "stamp", y, o.y, "wrong-y-stamp")
                    bad = True
                    break
                exp_r = list(m.rows[y]) if y < H else []
                got_r = o.get_values()
                if got_r != exp_r:
                    fail(case, "row-values", exp_r, got_r, "wrong-row-values")
                    bad = True
                    break
            else:
                if o.x != x:
                    fail(case, "stamp", x, o.x, "wrong-x-stamp")
                    bad = True
                    break
                # the column declared for that position (told apart by its style name)
                cs = TR.column_styles(t._Element__element)
                exp_s = cs[x] if 0 <= x < len(cs) else None
                if o.style != exp_s:
                    fail(case, "column-at-x", exp_s, o.style, "wrong-column")
                    bad = True
                    break
            if expanded and o.repeated is not None:
                fail(case, "expanded-has-repeat", None, o.repeated, "repeat-kept-on-expanded")
                bad = True
                break
        if bad:
            continue
        # counts for list getters
        # (d) detachment: mutate each returned object
        for j, (o, kind, x, y, expanded, doc) in enumerate(res):
            stop = False
            for mname, mut in mutations(kind):
                pre_t = snap(t)
                pre_c = oser(container) if container is not None else None
                pre_others = [oser(o2) for k2, (o2, *_r) in enumerate(res) if k2 != j]
                nev += 1
                try:
                    mut(o)
                except Exception as e:
                    fail(case, f"mutation-raises:{mname}", "no exception", type(e).__name__, f"mutation-raises:{type(e).__name__}")
                    stop = dirty = True
                    break
                if rowrep or cellrep or cached:
                    nontrivial.add((case.split("[")[0], mname))
                if snap(t) != pre_t:
                    ecls = ""
                    if kind == "row" and y is not None and y < H:
                        ecls = "row-of-repeated-run" if row_is_repeated(elem0_runs, y) else "row-unrepeated"
                    fail(case, f"aliased:{mname}", "table unchanged", "table changed", "returned-object-aliases-table", ecls)
                    stop = dirty = True
                    break
                if container is not None and oser(container) != pre_c:
                    fail(case, f"aliased-row:{mname}", "row unchanged", "row changed", "returned-object-aliases-row")
                    stop = dirty = True
                    break
                post_others = [oser(o2) for k2, (o2, *_r) in enumerate(res) if k2 != j]
                if post_others != pre_others:
                    fail(case, f"aliased-sibling:{mname}", "others unchanged", "another returned object changed", "returned-objects-alias-each-other")
                    stop = dirty = True
                    break
            if stop:
                break
    # (e) push back
    for (x, y) in [(0, 0), (max(W - 1, 0), max(H - 1, 0)), (1, 1)]:
        if not (x < W and y < H):
            continue
        for keep in (True, False):
            st = build()
            t, m2 = st.table, st.model.copy()
            nev += 1
            try:
                c = t.get_cell((x, y), keep_repeated=keep)
                c.set_value(99)  # (clears the attributes, repeat included)
                k = c.repeated or 1
                t.set_cell((x, y), c)
                m2.set_cell(x, y, 99, k)
                got = t.get_values()
                if got != m2.matrix() or tuple(t.size) != (m2.width, m2.height):
                    fail(f"pushback get_cell/set_cell[({x},{y})] keep={keep}", "pushback", m2.matrix(), got, "pushback-differs")
            except Exception as e:
                fail(f"pushback get_cell/set_cell[({x},{y})]", "pushback-raises", None, type(e).__name__, f"raises:{type(e).__name__}")
    for y in sorted({0, max(H - 1, 0)}):
        if y >= H:
            continue
        st = build()
        t, m2 = st.table, st.model.copy()
        nev += 1
        try:
            r = t.get_row(y)
            k = r.repeated or 1
            r.set_value(0, 99)
            t.set_row(y, r)
            rm = list(m2.rows[y])
            if rm:
                rm[0] = 99
            else:
                rm = [99]
            m2.set_row(y, rm, k)
            got = t.get_values()
            if got != m2.matrix():
                fail(f"pushback get_row/set_row[{y}]", "pushback", m2.matrix(), got, "pushback-differs")
        except Exception as e:
            fail(f"pushback get_row/set_row[{y}]", "pushback-raises", None, type(e).__name__, f"raises:{type(e).__name__}")
    return (sidx, hist, nev, nobj, report.compact(fails), len(nontrivial))


UNDERDECLARED = {"kind": "xml", "rows": [{"enc": [[1, 1], [2, 1], [3, 1], [4, 1]], "rep": 1}, {"enc": [[5, 2], [6, 1]], "rep": 2}, {"enc": [[7, 1]], "rep": 1}], "cols": [2]}


def states_for(tm, tier):
    """(seed idx, history) list: all seeds at depth 0; successors of a seed subset by one op."""
    out = [(i, ()) for i in tm.select_seeds("xmlctor")]
    sub = tm.select_seeds("rep" if tier == "quick" else "xmlctor")
    alph = "mini" if tier == "quick" else "sub"
    for i in sub:
        st = tm.new(tm.seed_list[i])
        for op in tm.enabled(st, alph):
            out.append((i, (op,)))
    # (cache-populating read, op): wrappers cached before the mutation
    for i in tm.select_seeds("rep6" if tier == "quick" else "rep"):
        st = tm.new(tm.seed_list[i])
        ops = tm.enabled(st, alph)
        reads = [op for op in ops if op[0].startswith("read_")]
        for r in reads:
            for op in ops:
                if not op[0].startswith("read_"):
                    out.append((i, (r, op)))
    if tier != "quick":
        # sample files, except the sheet whose repeated tail makes it 65536 rows high
        # (every getter x every returned object x every mutation is quadratic in the height)
        for i in tm.select_seeds("files"):
            st = tm.new(tm.seed_list[i])
            if st.model.height <= 64 and st.model.width <= 64:
                out.append((i, ()))
    return out


def run(prop, tier, vseed):
    global TM
    t0 = time.time()
    TM = tm = TableMachine()
    tasks = states_for(tm, tier)
    # a table as another producer may write it: fewer columns declared than the rows hold cells
    # (reads must answer from the rows; C07 is not judged on this seed)
    tm.seed_list.append(UNDERDECLARED)
    tasks.append((len(tm.seed_list) - 1, ()))
    nproc = int(os.environ.get("VERIF_NPROC", "0")) or min(16, os.cpu_count() or 1)
    failures = []
    nev = nobj = 0
    ntv = 0
    seen_keys = set()
    with mp.get_context("fork").Pool(nproc) as pool:
        for sidx, hist, a, b, fails, nt in pool.imap(work, tasks, chunksize=4):
            nev += a
            nobj += b
            ntv = max(ntv, nt)
            failures.extend(fails)
            if len(failures) > 5000:
                failures = report.compact(failures)
    cov = {
        "states": len(tasks),
        "transitions": nev,
        "traces_validated_against_impl": len(tasks),
        "evaluations": nev,
        "distinct_nontrivial": ntv,
        "returned_objects_checked": nobj,
        "rule": "every table state (all seed encodings + one-op successors) x every getter case x every returned object x every mutation of it; distinct_nontrivial counts distinct (getter, mutation) pairs exercised on a state with repeated rows/cells or populated caches",
        "samples": [{"seed": tm.seed_list[tasks[-1][0]], "history": [list(o) for o in tasks[-1][1]], "getter": "get_cell[(1,1)]", "mutation": "set_value(99)"}],
        "exhaustive": True,
    }
    assume = ["lxml, CPython trusted", "'documented as a copy' = get_cell, get_row, traverse, traverse_columns, get_columns, columns, get_column, Row.get_cell, Row.traverse and the getters built directly on them", "get_cell(keep_repeated=True) and get_row keeping the repeat count are documented and not flagged"]
    return report.conclude(prop, tier, vseed, failures, cov, assume, t0)


def replay(rp):
    global TM
    TM = tm = TableMachine()
    tm.seed_list.append(UNDERDECLARED)
    from ..replay import tup

    hist = tuple(tup(o) for o in rp["history"])
    idx = tm.seed_list.index(rp["seed"])
    r = work((idx, hist))
    hits = [f for f in r[4] if f["replay"]["case"] == rp["case"]]
    for f in hits:
        print("FAIL", f["signature"], f["replay"]["oracle"], f["replay"]["expected"], f["replay"]["actual"])
    return 1 if hits else 0
