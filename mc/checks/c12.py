"""C12: every element class round-trips through XML and comes back as the same class.

"Programs" = the class registry, read at run time (a class registered later is
covered automatically).  For every class: constructor parameters by introspection,
type/name-directed small domains, every argument vector in which at most two
parameters differ from their defaults (deviation bound 2).
"""

from __future__ import annotations

import copy
import inspect
import itertools
import json
import multiprocessing as mp
import os
import time
from datetime import datetime, timedelta
from pathlib import Path

from lxml import etree

import odfdo
from odfdo import Element
from odfdo.element import _class_registry

from .. import report

EXC_FILE = Path(__file__).with_name("c12_exceptions.json")

STR_DOMAIN = ["N1", "a b", "é&<"]
NAME_DOMAINS = {
    "xml_id": ["id1", "x_2"], "family": ["paragraph", "text", "graphic", "table-cell", "number", "list", "page-layout", "master-page", "font-face"],
    "url": ["http://x/", "a b"], "href": ["http://x/", "p.odt"], "level": [1, 2, 10], "outline_level": [1, 2, 10], "repeated": [2, 3],
    "width": [1, 2], "height": [1, 2], "size": [("1cm", "2cm"), ("3in", "4in")], "position": [("1cm", "2cm"), ("0cm", "0cm"), 0, 1],
    "p1": [("1cm", "2cm")], "p2": [("3cm", "4cm")], "glue_points": [(1, 2)], "anchor_type": ["page", "frame", "paragraph", "char", "as-char"],
    "note_class": ["footnote", "endnote"], "cell_type": ["float", "string", "currency", "percentage", "boolean", "date", "time"],
    "currency": ["EUR"], "formula": ["of:=1+1"], "date": [datetime(2024, 1, 31, 12, 0, 0), datetime(1999, 12, 31, 23, 59, 59)], "time": [datetime(2024, 1, 31, 12, 0, 0)],
    "display": ["name", "number", "true", "none"], "ref_format": ["page", "text", "chapter", "direction", "category-and-value", "caption", "value", "number", "number-all-superior", "number-no-superior"],  # ODF 1.2 19.857 text:reference-format "xlink_type": ["simple"], "show": ["embed", "new"],
    "actuate": ["onLoad", "onRequest"], "print_ranges": [["A1:B2"], ["A1:B2", "C3:D4"]], "crange": ["A1", "B2:C3", (0, 0, 1, 1)],
    "font_name": ["Arial", "Deja Vu"], "font_pitch": ["variable", "fixed"], "value": [7, "txt", True, 1.5], "value_type": ["float", "string"],
    "z_index": [0, 1], "number": [1, 2], "start_value": [1, 5], "anchor_page": [1, 2], "table_name": ["T", "a b"], "usage": ["filter", "print-range"],
    "break_before": ["page", "column"], "break_after": ["page"], "area": ["text", "paragraph", "graphic"], "master_page": ["Standard"],
    "page_kind": ["left"], "text_style": ["T1"], "style": ["S1", "a b"], "draw_id": ["id1"], "name": ["N1", "a b", "é&<"],
    "title": ["Ti", "a b", 'x xmlns:a="b" y'], "protection_key": ["k"], "margin": ["1cm"], "creator": ["me", "é"], "citation": ["1", "*"], "note_id": ["n1"], "body": ["b", "a b"],
    "text": ["t", "a  b", 'x xmlns:a="b" y'], "list_content": [["a", "b"]], "text_or_element": ["abc", "a  b", 'x xmlns:a="b" y'], "delay": [timedelta(seconds=5)], "date_adjust": [timedelta(days=1)], "time_adjust": [timedelta(hours=1)],
    "data_style": ["N0"], "fixed": [True, False],
}


def domain_for(name, param):
    if name in NAME_DOMAINS:
        dom = NAME_DOMAINS[name]
        ann0 = str(param.annotation)
        if name == "position":
            dom = [v for v in dom if isinstance(v, tuple)] if "tuple" in ann0 else ([v for v in dom if isinstance(v, int)] if "int" in ann0 else ["center", "top left"])
        return dom
    if "color" in name:
        return ["#123456", "red", (1, 2, 3)]
    ann = str(param.annotation)
    d = param.default
    if ann.startswith("bool") or isinstance(d, bool):
        return [True, False]
    if "int" in ann and "str" not in ann:
        return [0, 1, 3]
    if "tuple" in ann:
        return [("1cm", "2cm")]
    if "datetime" in ann:
        return [datetime(2024, 1, 31, 12, 0, 0)]
    if "timedelta" in ann:
        return [timedelta(hours=1)]
    if "Element" in ann or "Document" in ann:
        return []
    if "str" in ann or ann == "<class 'inspect._empty'>":
        return STR_DOMAIN
    return []


def classes():
    out = {}
    for tag, cls in _class_registry.items():
        out.setdefault(cls, []).append(tag)
    return out


def params_of(cls):
    sig = inspect.signature(cls.__init__)
    out = []
    for n, p in sig.parameters.items():
        if n in ("self", "kwargs") or p.kind in (p.VAR_POSITIONAL, p.VAR_KEYWORD):
            continue
        out.append((n, p))
    return out


def norm(v):
    from decimal import Decimal

    if isinstance(v, bool):
        return ("b", v)
    if v is None:
        return None
    if isinstance(v, Decimal):
        return ("s", str(float(v)) if v != v.to_integral_value() else str(int(v)))
    if isinstance(v, float):
        return ("s", str(v) if v != int(v) else str(int(v)))
    if isinstance(v, timedelta):
        sec = int(v.total_seconds())
        return ("s", "PT%02dH%02dM%02dS" % (sec // 3600, sec % 3600 // 60, sec % 60))
    if isinstance(v, (int, float)):
        return ("s", str(v))
    if isinstance(v, str):
        if v in ("true", "false"):
            return ("b", v == "true")
        return ("s", v)
    if isinstance(v, (list, tuple)):
        return ("t", tuple(norm(x) for x in v))
    if isinstance(v, datetime):
        return ("s", v.isoformat())
    return ("r", repr(v))


def color_norm(v):
    from odfdo.utils.color import hexa_color

    try:
        return ("s", hexa_color(v))
    except Exception:
        return norm(v)


def load_exceptions():
    if EXC_FILE.exists():
        return {(e["class"], e["param"]): e for e in json.loads(EXC_FILE.read_text())["exceptions"]}
    return {}


def alias_xml(elem):
    """The same infoset written with non-canonical prefixes (q0, q1, ... bound on the top element):
    legal XML namespaces, what another producer may write."""
    uris = []
    for e in elem.iter():
        if not isinstance(e.tag, str):
            continue
        for name in [e.tag] + list(e.attrib):
            if name.startswith("{"):
                u = name[1:].split("}")[0]
                if u not in uris and u != "http://www.w3.org/XML/1998/namespace":  # xml: is reserved
                    uris.append(u)
    nsmap = {f"q{i}": u for i, u in enumerate(uris)}

    def build(e, top):
        if not isinstance(e.tag, str):
            return copy.deepcopy(e)
        n = etree.Element(e.tag, nsmap=nsmap if top else None)
        for k, v in e.attrib.items():
            n.set(k, v)
        n.text = e.text
        for c in e:
            cc = build(c, False)
            cc.tail = c.tail
            n.append(cc)
        return n

    return etree.tostring(build(elem, True), encoding="unicode")


def infoset(e):
    if not isinstance(e.tag, str):
        return ("#", e.text, e.tail)
    return (e.tag, tuple(sorted(e.attrib.items())), e.text or "", tuple((infoset(c), c.tail or "") for c in e))


def work(clsname):
    cls = next(c for c in classes() if c.__name__ == clsname)
    exceptions = load_exceptions()
    fails = []
    nev = 0
    pairs = set()
    ps = params_of(cls)
    required = [(n, p) for n, p in ps if p.default is inspect._empty]
    doms = {n: domain_for(n, p) for n, p in ps}
    base = {}
    for n, p in required:
        if doms[n]:
            base[n] = doms[n][0]

    def rec(site, cls_, oracle, exp, act, symptom, kwargs):
        fails.append({"signature": f"site={site}; class={cls_}; symptom={symptom}",
                      "replay": {"replay_module": "mc.checks.c12", "klass": clsname, "kwargs": {k: repr(v) for k, v in kwargs.items()}, "history": [], "oracle": oracle, "expected": repr(exp)[:200], "actual": repr(act)[:200]}})

    names = [n for n, _ in ps if doms[n]]
    vectors = [dict(base)]
    for n in names:
        for v in doms[n]:
            vectors.append({**base, n: v})
    for n1, n2 in itertools.combinations(names, 2):
        for v1 in doms[n1][:2]:
            for v2 in doms[n2][:2]:
                vectors.append({**base, n1: v1, n2: v2})
    # composite content: white-space-only text between / before child elements must survive a re-parse
    for kw in vectors[:1]:
        try:
            obj = cls(**kw)
        except Exception:
            break
        for variant in ("blank-tail-between-children", "blank-text-before-first-child", "mixed-text-and-blank-tails"):
            nev += 1
            try:
                o2 = cls(**kw)
                e = o2._Element__element
                for ch in list(e):
                    e.remove(ch)
                e.text = None
                a = Element.from_tag("<text:span>a</text:span>")._Element__element
                b = Element.from_tag("<text:span>b</text:span>")._Element__element
                if variant == "blank-tail-between-children":
                    a.tail = " "
                elif variant == "blank-text-before-first-child":
                    e.text = " "
                    a.tail = "\n  "
                else:
                    e.text = "x"
                    a.tail = " "
                    b.tail = " y "
                e.append(a)
                e.append(b)
                xml = o2.serialize()
                back = Element.from_tag(xml)
                if etree.tostring(back._Element__element, method="c14n") != etree.tostring(e, method="c14n"):
                    rec(f"{clsname}.from_tag(serialize)", variant, "infoset", xml[:160], back.serialize()[:160], "infoset-differs-after-reparse", kw)
                elif type(back) is not type(o2):
                    rec(f"{clsname}.from_tag", variant, "class", clsname, type(back).__name__, "different-class-after-reparse", kw)
            except Exception as ex:
                rec(f"{clsname}.from_tag(serialize)", variant, "raises", "no exception", f"{type(ex).__name__}: {ex}"[:150], f"raises:{type(ex).__name__}", kw)
    # two instances of the class in one tree: each reports its own property values (also after re-parse)
    for n in names:
        if len(doms[n]) < 2 or not (hasattr(cls, n)):
            continue
        attr = inspect.getattr_static(cls, n, None)
        if not isinstance(attr, property):
            continue
        v1, v2 = doms[n][0], doms[n][1]
        nev += 1
        try:
            o1, o2 = cls(**{**base, n: v1}), cls(**{**base, n: v2})
            g1, g2 = getattr(o1, n), getattr(o2, n)
            if norm(g1) == norm(g2):
                continue  # the property does not distinguish the two arguments (judged above)
            parent = Element.from_tag("<office:text/>")
            parent._Element__element.append(o1._Element__element)
            parent._Element__element.append(o2._Element__element)
            k1, k2 = parent.children
            h1, h2 = getattr(k1, n), getattr(k2, n)
            back = Element.from_tag(parent.serialize())
            b1, b2 = back.children
            r1, r2 = getattr(b1, n), getattr(b2, n)
            if (norm(h1), norm(h2)) != (norm(g1), norm(g2)) or (norm(r1), norm(r2)) != (norm(g1), norm(g2)):
                rec(f"{clsname}.{n}", "two-instances-in-one-tree", "own-property-values", (g1, g2), ((h1, h2), (r1, r2)), "property-read-from-another-element", {n: v1, "second": v2})
        except (ValueError, TypeError, KeyError, AttributeError):
            continue
        except Exception as ex:
            rec(f"{clsname}.{n}", "two-instances-in-one-tree", "raises", "no exception", f"{type(ex).__name__}: {ex}"[:150], f"raises:{type(ex).__name__}", {n: v1})
    seen_ctor_error = set()
    for kw in vectors:
        nev += 1
        try:
            obj = cls(**kw)
        except (ValueError, TypeError, KeyError, AttributeError) as e:
            # invalid combination of arguments: outside "valid constructor arguments"
            continue
        except Exception as e:
            rec(f"{clsname}()", "constructor", "raises", "object or ValueError/TypeError", f"{type(e).__name__}: {e}", f"raises:{type(e).__name__}", kw)
            continue
        # a. well-formed, same class
        try:
            xml = obj.serialize()
            back = Element.from_tag(xml)
        except Exception as e:
            rec(f"{clsname}.serialize", "roundtrip", "reparse", "well-formed XML", f"{type(e).__name__}: {e}", "not-well-formed-or-unknown-namespace", kw)
            continue
        if type(back) is not type(obj):
            rec(f"{clsname}.from_tag", "roundtrip", "class", clsname, type(back).__name__, "different-class-after-reparse", kw)
            continue
        if etree.tostring(back._Element__element, method="c14n") != etree.tostring(obj._Element__element, method="c14n"):
            rec(f"{clsname}.serialize", "roundtrip", "infoset", xml[:150], back.serialize()[:150], "infoset-differs-after-reparse", kw)
        # b'. the same infoset under non-canonical namespace prefixes: same class, same tag name, same properties
        aliased = None
        try:
            aliased = Element.from_tag(alias_xml(obj._Element__element))
            if type(aliased) is not type(obj):
                rec(f"{clsname}.from_tag", "aliased-prefixes", "class", clsname, type(aliased).__name__, "different-class-under-aliased-prefixes", kw)
                aliased = None
            elif infoset(aliased._Element__element) != infoset(obj._Element__element):
                rec(f"{clsname}.from_tag", "aliased-prefixes", "infoset", xml[:150], aliased.serialize()[:150], "infoset-differs-under-aliased-prefixes", kw)
                aliased = None
            elif aliased.tag != obj.tag:
                rec(f"{clsname}.tag", "aliased-prefixes", "tag", obj.tag, aliased.tag, "property-differs-under-aliased-prefixes", kw)
        except Exception as e:
            rec(f"{clsname}.from_tag", "aliased-prefixes", "raises", "no exception", f"{type(e).__name__}: {e}"[:150], f"raises-under-aliased-prefixes:{type(e).__name__}", kw)
        # c. same-named properties before / after re-parse; d. exposure of the arguments
        for n, p in ps:
            if not hasattr(cls, n) and not hasattr(obj, n):
                continue
            attr = inspect.getattr_static(cls, n, None)
            if attr is not None and not isinstance(attr, property):
                continue  # a method of the same name, not a property
            try:
                before = getattr(obj, n)
            except Exception:
                continue
            if callable(before):
                continue
            pairs.add((clsname, n))
            if attr is not None:
                try:
                    after = getattr(back, n)
                    if norm(after) != norm(before):
                        key = (clsname, n)
                        if key not in exceptions or "reparse" not in exceptions[key].get("covers", "reparse exposure"):
                            rec(f"{clsname}.{n}", "property", "property-after-reparse", before, after, "property-differs-after-reparse", kw)
                except Exception as e:
                    rec(f"{clsname}.{n}", "property", "property-after-reparse", before, f"{type(e).__name__}", "property-raises-after-reparse", kw)
                if aliased is not None:
                    try:
                        al = getattr(aliased, n)
                        if norm(al) != norm(before):
                            rec(f"{clsname}.{n}", "aliased-prefixes", "property-under-aliased-prefixes", before, al, "property-differs-under-aliased-prefixes", kw)
                    except Exception as e:
                        rec(f"{clsname}.{n}", "aliased-prefixes", "property-under-aliased-prefixes", before, f"{type(e).__name__}", "property-raises-under-aliased-prefixes", kw)
            if n in kw and (p.default is inspect._empty or kw[n] != p.default):
                want = color_norm(kw[n]) if "color" in n else norm(kw[n])
                got = color_norm(before) if "color" in n else norm(before)
                if want == ("b", False) and got is None:
                    continue  # a false flag is written as an absent attribute
                if want != got:
                    key = (clsname, n)
                    exc = exceptions.get(key) or exceptions.get(("*", n))
                    if exc is not None:
                        req = exc.get("requires")
                        if not req or not all(kw.get(k) == v for k, v in req.items()):
                            continue
                    rec(f"{clsname}({n}=)", "argument", "argument-exposed-by-property", kw[n], before, "argument-not-exposed", kw)
    return nev, fails, pairs


def dispatch_check():
    """One instance of every registered tag nested three deep; every access path must give the registry's class."""
    fails = []
    nev = 0
    tags = sorted(_class_registry)
    from odfdo.element import ODF_NAMESPACES

    def qname(tag):
        uri, local = tag[1:].split("}")
        for p, u in ODF_NAMESPACES.items():
            if u == uri:
                return f"{p}:{local}"
        return None

    inner = []
    for t in tags:
        q = qname(t)
        if q is None:
            continue
        inner.append(f"<text:section><text:p><{q}><{q}/></{q}></text:p></text:section>")
    root = Element.from_tag("<office:text>" + "".join(inner) + "</office:text>")

    def expect(e):
        return _class_registry.get(e._Element__element.tag, Element)

    def check(e, path):
        nonlocal nev
        nev += 1
        if type(e) is not expect(e):
            fails.append({"signature": f"site=dispatch:{path}; class=tag={e.tag}; symptom=wrong-class",
                          "replay": {"replay_module": "mc.checks.c12", "klass": "dispatch", "kwargs": {"path": path, "tag": e.tag}, "history": [], "oracle": "class-of-node", "expected": expect(e).__name__, "actual": type(e).__name__}})

    def walk_children(e, label, depth=0):
        check(e, label + "children")
        for c in e.children:
            walk_children(c, label, depth + 1)
            par = c.parent
            if par is not None:
                check(par, label + "parent")

    def all_paths(root, label):
        nonlocal nev
        walk_children(root, label)
        for e in root.get_elements("descendant::*"):
            check(e, label + "get_elements")
        for e in root.xpath("descendant::*"):
            if isinstance(e, Element):
                check(e, label + "xpath")
        cl = root.clone
        check(cl, label + "clone")
        for e in cl.get_elements("descendant::*"):
            check(e, label + "clone.get_elements")
            check(e.clone, label + "clone-of-node")
        for t in tags:
            q = qname(t)
            if q:
                e = root.get_element(f"descendant::{q}")
                if e is not None:
                    check(e, label + "get_element")
                    try:
                        check(Element.from_tag(e.serialize()), label + "from_tag(serialize)")
                    except Exception as ex:
                        nev += 1
                        fails.append({"signature": f"site=dispatch:{label}from_tag(serialize); class=tag={q}; symptom=raises:{type(ex).__name__}",
                                      "replay": {"replay_module": "mc.checks.c12", "klass": "dispatch", "kwargs": {"path": label + "from_tag(serialize)", "tag": q}, "history": [], "oracle": "reparse", "expected": "no exception", "actual": f"{type(ex).__name__}: {ex}"[:150]}})

    all_paths(root, "")
    # the same tree written with non-canonical namespace prefixes
    all_paths(Element.from_tag(alias_xml(root._Element__element)), "aliased-prefixes:")
    return nev, fails


def run(prop, tier, vseed):
    t0 = time.time()
    cl = classes()
    names = sorted(c.__name__ for c in cl)
    nproc = int(os.environ.get("VERIF_NPROC", "0")) or min(16, os.cpu_count() or 1)
    nev = 0
    failures = []
    pairs = set()
    with mp.get_context("fork").Pool(nproc) as pool:
        for a, f, p in pool.imap_unordered(work, names, chunksize=1):
            nev += a
            failures.extend(f)
            pairs |= p
    n2, f2 = dispatch_check()
    nev += n2
    failures.extend(f2)
    cov = {
        "states": len(names),
        "transitions": nev,
        "traces_validated_against_impl": nev,
        "evaluations": nev,
        "programs": len(names),
        "registered_tags": len(_class_registry),
        "distinct_nontrivial": len(pairs),
        "deviation_bound": 2,
        "reviewed_exceptions": len(load_exceptions()),
        "rule": "every class of the registry (read at run time) x every argument vector with at most two parameters off their defaults over type/name-directed domains: well-formed XML, same class after re-parse, identical serialisation, every same-named property equal before/after re-parse, every passed argument exposed by its same-named property (reviewed exceptions in c12_exceptions.json); the same infoset written with non-canonical namespace prefixes gives the same class, tag name and property values; dispatch: one instance of every tag nested 3 deep through children / parent / get_elements / xpath / clone / get_element / from_tag, in the canonical and in the aliased-prefix encoding; distinct_nontrivial = distinct (class, parameter-with-property) pairs",
        "samples": [{"class": "Frame", "kwargs": {"name": "a b", "anchor_type": "page"}}],
        "exhaustive": True,
    }
    assume = ["lxml trusted", "constructor calls raising ValueError/TypeError/KeyError/AttributeError are invalid argument combinations and are skipped",
              "argument -> property comparison under str()/bool/colour normalisation; reviewed exceptions are listed with their reason"]
    return report.conclude(prop, tier, vseed, failures, cov, assume, t0)


def replay(rp):
    if rp["klass"] == "dispatch":
        n, f = dispatch_check()
        hits = [x for x in f if x["replay"]["kwargs"] == rp["kwargs"]]
    else:
        n, f, _ = work(rp["klass"])
        hits = [x for x in f if x["replay"]["kwargs"] == rp["kwargs"] and x["replay"]["oracle"] == rp["oracle"]]
    for h in hits[:3]:
        print("FAIL", h["signature"], h["replay"]["expected"], h["replay"]["actual"])
    return 1 if hits else 0
