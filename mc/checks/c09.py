"""C09: inserting or removing markup never alters the paragraph text around it.

Enumerates the paragraph family x every insertion form (regex / offset / position /
content; span, link, bookmark, reference mark, note, annotation), then every removal
on every resulting paragraph; depth 2 (two successive insertions of mixed kinds)
on a sub-family.  Oracles are independent lxml walks (projection, offsets of marks,
per-text-node regex matches) computed on the tree *before* the call.
"""

from __future__ import annotations

import multiprocessing as mp
import os
import re
import time

from lxml import etree

from odfdo import Element

from .. import report
from ..machines import paragraphs as PF
from ..models import odfws

REGEXES = ["a", "b", "ab", "a b", " +", "[bc]", "a|d", "zz"]
TEXTNS = odfws.TEXT
OFFICE = odfws.OFFICE
SPAN = "{%s}span" % TEXTNS
LINK = "{%s}a" % TEXTNS
XLINK_HREF = "{http://www.w3.org/1999/xlink}href"
NEWSTYLE = "Snew"
NEWURL = "http://new/"


def proj(elem):
    return odfws.raw_text(elem)


def width(elem):
    """Projection width of an inline element itself."""
    if elem.tag == odfws.S:
        try:
            return int(elem.get("{%s}c" % TEXTNS, "1"))
        except ValueError:
            return 1
    if elem.tag in (odfws.TAB, odfws.LB):
        return 1
    if elem.tag in odfws.SKIP:
        return 0
    return len(odfws.raw_text(elem))


def ops_for(root, tier):
    T = proj(root)
    n = len(T)
    ops = []
    for r in REGEXES:
        ops.append(("set_span", "regex", r))
        ops.append(("set_link", "regex", r))
    offs = sorted({0, 1, 2, n // 2, max(n - 1, 0), n, n + 1})
    for o in offs:
        for l in (1, 2, 3, 0):
            ops.append(("set_span", "offset", o, l))
        ops.append(("set_link", "offset", o, 2))
    for meth in ("set_bookmark", "set_reference_mark", "insert_annotation"):
        for r in REGEXES[:6] + ["zz"]:
            for pos in (0, 1, 2, 3, -1):
                ops.append((meth, "before", r, pos))
            for pos in (0, 2, -1):
                ops.append((meth, "after", r, pos))
            ops.append((meth, "content", r, 0))
            ops.append((meth, "content", r, 2))
            if tier != "quick":
                ops.append((meth, "content", r, 1))
        for p in offs:
            ops.append((meth, "position", p))
        for a, b in ((0, 1), (1, n), (0, n), (1, n + 2), (n, n)):
            ops.append((meth, "position2", a, b))
    for role in ("start", "end"):
        ops.append(("set_bookmark", "role", role, "a", 0))
        ops.append(("set_bookmark", "role-position", role, 1))
    for r in REGEXES[:4] + ["zz"]:
        ops.append(("insert_note", "after", r))
    return ops


COUNTER = [0]


def apply(p, op):
    """Call the real API. Returns (exception name or None)."""
    COUNTER[0] += 1
    name = f"n{COUNTER[0]}"
    meth = op[0]
    try:
        if meth == "set_span":
            if op[1] == "regex":
                p.set_span(NEWSTYLE, regex=op[2])
            else:
                p.set_span(NEWSTYLE, offset=op[2], length=op[3])
        elif meth == "set_link":
            if op[1] == "regex":
                p.set_link(NEWURL, regex=op[2])
            else:
                p.set_link(NEWURL, offset=op[2], length=op[3])
        elif meth in ("set_bookmark", "set_reference_mark", "insert_annotation"):
            f = getattr(p, meth)
            kw = {}
            form = op[1]
            if form == "before":
                kw = {"before": op[2], "position": op[3]}
            elif form == "after":
                kw = {"after": op[2], "position": op[3]}
            elif form == "content":
                kw = {"content": op[2], "position": op[3]}
            elif form == "position":
                kw = {"position": op[2]}
            elif form == "position2":
                kw = {"position": (op[2], op[3])}
            elif form == "role":
                kw = {"role": op[2], "before": op[3], "position": op[4]}
            elif form == "role-position":
                kw = {"role": op[2], "position": op[3]}
            if meth == "insert_annotation":
                f(body="note body zz ab", creator="me", **kw)
            else:
                f(name, **kw)
        elif meth == "insert_note":
            p.insert_note(after=op[2], note_id=name, citation="1", body="note body ab zz")
        else:
            raise AssertionError(op)
    except AssertionError:
        raise
    except Exception as e:
        return type(e).__name__
    return None


MARK_TAGS = {
    "set_bookmark": ("{%s}bookmark" % TEXTNS, "{%s}bookmark-start" % TEXTNS, "{%s}bookmark-end" % TEXTNS),
    "set_reference_mark": ("{%s}reference-mark" % TEXTNS, "{%s}reference-mark-start" % TEXTNS, "{%s}reference-mark-end" % TEXTNS),
    "insert_annotation": ("{%s}annotation" % OFFICE, "{%s}annotation" % OFFICE, "{%s}annotation-end" % OFFICE),
    "insert_note": ("{%s}note" % TEXTNS,),
}


def all_matches(nodes, rx):
    out = []
    for nd in nodes:
        for m in rx.finditer(nd["text"]):
            out.append((nd, m))
    return out


def node_class(nodes, root, o, l):
    """Input class of an offset range in the projection coordinate system."""
    T = proj(root)
    if not nodes:
        return "no-text-node"
    if o >= len(T):
        return "at-or-beyond-end"
    has_ws_before = False
    # any white-space element whose offset is <= o ?
    for e in root.iter(odfws.S, odfws.TAB, odfws.LB):
        eo = PF.offset_of(root, e)
        if eo is not None and eo <= o:
            has_ws_before = True
    if has_ws_before:
        return "ws-element-before"
    for nd in nodes:
        if nd["start"] <= o < nd["start"] + len(nd["text"]):
            end = o + (l if l > 0 else 0)
            if end <= nd["start"] + len(nd["text"]):
                return "inside-one-node"
            return "crosses-node-boundary"
    return "not-in-a-text-node"


def expectation(root, op):
    """What the property demands, from the pre-state tree.
    Returns dict: kind 'wrap' {'texts': [...]}, 'marks' {'offsets': [...]}, or 'nothing'."""
    T = proj(root)
    meth0 = op[0]
    nodes = PF.text_nodes(root)
    allnodes = PF.text_nodes(root, include_skipped=True)
    ANNOT = "{%s}annotation" % OFFICE
    # mark insertions search the "main text": everything but annotation bodies
    marknodes = [nd for nd in allnodes if nd["skip_tag"] != ANNOT]
    has_note_text = any(nd["in_skip"] for nd in (allnodes if meth0 in ("set_span", "set_link") else marknodes))

    def off(nd, k):
        return -1 if nd["in_skip"] else nd["start"] + k

    meth, form = op[0], op[1]
    if meth in ("set_span", "set_link"):
        if form == "regex":
            rx = re.compile(op[2])
            texts = [m.group() for _, m in all_matches(allnodes, rx)]
            return {"kind": "wrap", "texts": texts, "cls": "regex"} if texts else {"kind": "nothing", "cls": "regex-no-match"}
        o, l = op[2], op[3]
        cls = node_class(nodes, root, o, l) + (",note-text-present" if has_note_text else "")
        if o >= len(T):
            return {"kind": "nothing", "cls": cls}  # (cls carries note-text-present when relevant)
        if l == 0:
            return {"kind": "wrap-prefix", "start": o, "cls": cls + ",length=0"}
        return {"kind": "wrap", "texts": [T[o : o + l]], "start": o, "cls": cls}
    if meth == "insert_note":
        rx = re.compile(op[2])
        ms = all_matches(marknodes, rx)
        if not ms:
            return {"kind": "nothing", "cls": "regex-no-match"}
        nd, m = ms[0]
        return {"kind": "marks", "offsets": [off(nd, m.end())], "cls": "after"}
    # marks
    if form in ("before", "after", "content", "role"):
        if form == "role":
            r, pos, use = op[3], op[4], "before"
        else:
            r, pos, use = op[2], op[3], form
        rx = re.compile(r)
        ms = all_matches(marknodes, rx)
        if not ms or (pos >= 0 and pos >= len(ms)):
            return {"kind": "nothing", "cls": f"{form},no-match"}
        nd, m = ms[pos] if pos >= 0 else ms[-1]
        if use == "before":
            return {"kind": "marks", "offsets": [off(nd, m.start())], "cls": form}
        if use == "after":
            return {"kind": "marks", "offsets": [off(nd, m.end())], "cls": form}
        return {"kind": "marks", "offsets": [off(nd, m.start()), off(nd, m.end())], "cls": form}
    if form in ("position", "role-position"):
        p = op[2] if form == "position" else op[3]
        cls = node_class(nodes, root, p, 0) + (",note-text-present" if has_note_text else "")
        if p > len(T):
            return {"kind": "nothing", "cls": f"{form},beyond-end" + (",note-text-present" if has_note_text else "")}
        if p == len(T) and cls == "at-or-beyond-end":
            cls = "at-end" + (",ws-element-before" if any(True for _ in root.iter(odfws.S, odfws.TAB, odfws.LB)) else "")
        return {"kind": "marks", "offsets": [p], "cls": f"{form},{cls}"}
    if form == "position2":
        a, b = op[2], op[3]
        if a > len(T) or b > len(T):
            return {"kind": "nothing", "cls": ("position2,end-beyond-text" if a <= len(T) else "position2,start-beyond-text") + (",note-text-present" if has_note_text else "")}
        ws = any(True for _ in root.iter(odfws.S, odfws.TAB, odfws.LB))
        return {"kind": "marks", "offsets": [a, b], "cls": "position2" + (",ws-element" if ws else "") + (",note-text-present" if has_note_text else "")}
    raise AssertionError(op)


def new_wrappers(root, meth, pre_ids):
    if meth == "set_span":
        return [e for e in root.iter(SPAN) if e.get("{%s}style-name" % TEXTNS) == NEWSTYLE and id(e) not in pre_ids]
    return [e for e in root.iter(LINK) if e.get(XLINK_HREF) == NEWURL and id(e) not in pre_ids]


def check_insertion(pre_root, pre_xml, pre_marks, p, op, exc):
    """Return list of (oracle, expected, actual, symptom, cls)."""
    root = p._Element__element
    T0 = proj(pre_root)
    exp = expectation(pre_root, op)
    cls = exp["cls"]
    out = []
    post_xml = etree.tostring(root)
    T1 = proj(root)
    if exc is not None:
        if post_xml != pre_xml:
            out.append(("raise-without-partial-modification", "unchanged paragraph", f"{exc} after a partial edit", "partial-modification", cls))
        return out
    if T1 != T0:
        out.append(("text-unchanged", T0, T1, "text-changed", cls))
        return out
    if not odfws.is_normal_form(root) and odfws.is_normal_form(pre_root):
        out.append(("white-space-normal-form", "normal form kept", odfws.collapsed_text(root), "left-normal-form", cls))
        return out
    meth = op[0]
    if exp["kind"] == "nothing":
        if post_xml != pre_xml:
            out.append(("no-match-untouched", "unchanged paragraph", "changed", "changed-on-no-match", cls))
        return out
    if exp["kind"] in ("wrap", "wrap-prefix"):
        ws = new_wrappers(root, meth, pre_marks)
        got = [odfws.raw_text(e) for e in ws]
        if exp["kind"] == "wrap":
            if got != exp["texts"]:
                out.append(("wrapped-substring", exp["texts"], got, "wrong-substring-wrapped", cls))
                return out
            if "start" in exp and ws:
                off = PF.offset_of(root, ws[0])
                if off is not None and off != exp["start"]:
                    out.append(("wrapped-at-offset", exp["start"], off, "wrong-substring-wrapped", cls))
        else:
            if len(ws) != 1:
                out.append(("wrapped-one", 1, len(ws), "wrong-substring-wrapped", cls))
            else:
                off = PF.offset_of(root, ws[0])
                if off != exp["start"] or not got[0]:
                    out.append(("wrapped-at-offset", exp["start"], off, "wrong-substring-wrapped", cls))
        return out
    # marks
    tags = MARK_TAGS[meth]
    marks = [e for e in root.iter(*set(tags)) if id(e) not in pre_marks]
    # pre_marks holds ids of pre-existing elements of the same tags (tree mutated in place)
    offs = sorted((-1 if PF.offset_of(root, e) is None else PF.offset_of(root, e)) for e in marks)
    if offs != sorted(exp["offsets"]):
        out.append(("mark-offset", sorted(exp["offsets"]), offs, "mark-misplaced", cls))
    elif len(exp["offsets"]) == 2 and len(marks) == 2:
        # start must precede end in document order
        order = [e.tag for e in marks]
        want_first = tags[1]
        if exp["offsets"][0] != exp["offsets"][1] and order[0] != want_first:
            out.append(("mark-order", "start before end", order, "mark-misplaced", cls))
    return out


def check_removals(p_builder, T, tier):
    """p_builder() -> fresh paragraph in the state to test. Yields failure tuples."""
    out = []
    n = 0
    p = p_builder()
    root = p._Element__element
    has_span = any(True for _ in root.iter(SPAN))
    has_link = any(True for _ in root.iter(LINK))
    for meth, tag, present in (("remove_spans", SPAN, has_span), ("remove_links", LINK, has_link)):
        p = p_builder()
        n += 1
        try:
            r = getattr(p, meth)()
            if isinstance(r, list):
                got = "".join(x if isinstance(x, str) else odfws.raw_text(x._Element__element) for x in r)
                left = False
            else:
                got = proj(r._Element__element)
                left = any(True for _ in r._Element__element.iter(tag))
            if got != T:
                out.append((meth, T, got, "text-changed-by-strip", "strip-all"))
            elif left:
                out.append((meth, f"no {tag} left", "still there", "markup-not-removed", "strip-all"))
        except Exception as e:
            out.append((meth, "no exception", type(e).__name__, f"raises:{type(e).__name__}", "strip-all"))
    # strip one span / one link
    for meth, tag in (("remove_span", SPAN), ("remove_link", LINK)):
        count = len(list(root.iter(tag)))
        for i in range(count):
            p = p_builder()
            n += 1
            els = [e for e in p._Element__element.iter(tag)]
            target = Element.from_tag(els[i])
            try:
                r = getattr(p, meth)(target)
                if isinstance(r, list):
                    got = "".join(x if isinstance(x, str) else odfws.raw_text(x._Element__element) for x in r)
                else:
                    got = proj(r._Element__element)
                if got != T:
                    out.append((meth, T, got, "text-changed-by-strip", "strip-one"))
            except Exception as e:
                out.append((meth, "no exception", type(e).__name__, f"raises:{type(e).__name__}", "strip-one"))
    # delete each inline element / mark (keep_tail=True)
    count = len([e for e in root.iterdescendants() if isinstance(e.tag, str)])
    for i in range(count):
        p = p_builder()
        n += 1
        r2 = p._Element__element
        els = [e for e in r2.iterdescendants() if isinstance(e.tag, str)]
        e = els[i]
        # elements inside a note / annotation body are not paragraph text
        anc = e.getparent()
        inside_skip = False
        while anc is not None and anc is not r2:
            if anc.tag in odfws.SKIP:
                inside_skip = True
            anc = anc.getparent()
        if inside_skip:
            continue
        start = PF.offset_of(r2, e)
        w = width(e)
        expT = T[:start] + T[start + w :]
        kind = etree.QName(e).localname
        try:
            Element.from_tag(e).delete()
            got = proj(r2)
            if got != expT:
                out.append(("delete", expT, got, "text-changed-by-delete", f"delete:{kind}"))
        except Exception as ex:
            out.append(("delete", "no exception", type(ex).__name__, f"raises:{type(ex).__name__}", f"delete:{kind}"))
    return out, n


def work(task):
    items, depth, tier = task[:3]
    part = task[3] if len(task) > 3 else None
    fails = []
    nev = 0
    classes = set()

    def record(hist, oracle, exp, act, symptom, cls, site):
        fails.append({"signature": f"site={site}; class={cls}; symptom={symptom}",
                      "replay": {"replay_module": "mc.checks.c09", "items": list(items), "history": [list(o) for o in hist],
                                 "oracle": oracle, "expected": exp, "actual": act}})

    def build(hist):
        p = PF.build(items)
        for o in hist:
            apply(p, o)
        return p

    def explore(hist, d):
        nonlocal nev
        p0 = build(hist)
        root0 = p0._Element__element
        oplist = ops_for(root0, tier)
        if part is not None and not hist:
            oplist = oplist[part[0] :: part[1]]
        for op in oplist:
            p = build(hist)
            root = p._Element__element
            pre_xml = etree.tostring(root)
            pre_root = etree.fromstring(pre_xml)
            # keep the pre-existing lxml proxies alive so that id() stays unique
            keep = list(root.iter())
            pre_marks = {id(e) for e in keep}
            exc = apply(p, op)
            nev += 1
            res = check_insertion(pre_root, pre_xml, pre_marks, p, op, exc)
            site = f"Paragraph.{op[0]}({op[1]})"
            exp = expectation(pre_root, op)
            classes.add((op[0], op[1], exp["cls"]))
            for oracle, e, a, symptom, cls in res:
                record(hist + (op,), oracle, e, a, symptom, cls, site)
            del keep
            if res or exc is not None:
                continue
            changed = etree.tostring(root) != pre_xml
            if not changed:
                continue
            # removals on the new state
            T = proj(root)
            h2 = hist + (op,)
            rres, n2 = check_removals(lambda: build(h2), T, tier)
            nev += n2
            for oracle, e, a, symptom, cls in rres:
                record(h2 + (("removal", oracle),), oracle, e, a, symptom, cls, f"removal.{oracle}")
            if d > 1:
                explore(h2, d - 1)

    # removals on the seed itself
    if part is None or part[0] == 0:
        T = proj(PF.build(items)._Element__element)
        rres, n2 = check_removals(lambda: PF.build(items), T, tier)
        nev += n2
        for oracle, e, a, symptom, cls in rres:
            record((("removal", oracle),), oracle, e, a, symptom, cls, f"removal.{oracle}")
    explore((), depth)
    return nev, fails, classes


def run(prop, tier, vseed):
    t0 = time.time()
    if tier == "quick":
        fam1 = PF.family(3, ["ab", "s2", "span", "bm", "link"]) + [t for t in PF.family(2, PF.FULL)]
        fam2 = PF.family(2, ["ab", "a b", "s2", "span", "link"])[:16]
    else:
        fam1 = PF.family(3, PF.FULL)
        fam2 = PF.family(2, PF.SMALL)
    fam1 = list(dict.fromkeys(fam1))
    tasks = [(it, 2, tier, (k, 12)) for it in fam2 for k in range(12)] + [(it, 1, tier) for it in fam1]
    nproc = int(os.environ.get("VERIF_NPROC", "0")) or min(16, os.cpu_count() or 1)
    nev = 0
    failures = []
    classes = set()
    with mp.get_context("fork").Pool(nproc) as pool:
        for a, f, c in pool.imap_unordered(work, tasks, chunksize=1):
            nev += a
            failures.extend(f)
            if len(failures) > 20000:
                failures = report.compact(failures)
            classes |= c
    cov = {
        "states": len(fam1) + len(fam2),
        "transitions": nev,
        "traces_validated_against_impl": len(tasks),
        "evaluations": nev,
        "distinct_nontrivial": len(classes),
        "paragraph_family_depth1": len(fam1),
        "paragraph_family_depth2": len(fam2),
        "rule": "paragraph family (all sequences of <=3 inline items in white-space normal form) x every insertion form x (on success) every removal; depth 2 = two successive insertions of mixed kinds on a sub-family; distinct_nontrivial = distinct (method, form, input class) triples exercised",
        "samples": [{"items": list(fam1[len(fam1) // 2]), "op": ["set_bookmark", "content", "a b", 0]}],
        "exhaustive": True,
    }
    assume = ["lxml, CPython trusted", "offsets are counted in the readable text (projection) as the statement says; an address that cannot be honoured may raise if the paragraph is left untouched",
              "insert_reference is not enumerated (a reference field displays text of its own)"]
    return report.conclude(prop, tier, vseed, failures, cov, assume, t0)


def replay(rp):
    items = tuple(rp["items"])
    hist = [tuple(o) for o in rp["history"]]
    r = work((items, max(1, len([h for h in hist if h[0] != "removal"])), "thorough"))
    want = rp["history"]
    hits = [f for f in r[1] if f["replay"]["history"] == want]
    for h in hits[:3]:
        print("FAIL", h["signature"], h["replay"]["expected"], h["replay"]["actual"])
    return 1 if hits else 0
