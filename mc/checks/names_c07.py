"""C07 names: Table name / NamedRange name acceptance == the documented rule,
for every string up to a length bound over an alphabet with the forbidden characters."""

from __future__ import annotations

import itertools
import re

from odfdo import Table
from odfdo.table import NamedRange

ALPHA = ["a", "Z", "1", "_", " ", "'", "[", "]", "*", "?", ":", "/", "\\", "\n", ".", "é"]
FORBIDDEN = set("[]*?:/\\\n")


def table_rule(s):
    """Documented: after stripping, non empty, none of []*?:/\\ (nor a line break),
    apostrophe neither first nor last.  Returns the stored name or None."""
    n = s.strip()
    if not n:
        return None
    if any(c in FORBIDDEN for c in n):
        return None
    if n[0] == "'" or n[-1] == "'":
        return None
    return n


_CELLREF = re.compile(r"^[A-Za-z]+[0-9]+$")


def range_rule(s):
    n = s.strip()
    if not n:
        return None
    if not all(c == "_" or c.isalnum() for c in n):
        return None
    if _CELLREF.match(n):
        return None
    return n


def char_class(c):
    if c in FORBIDDEN:
        return "forbidden"
    if c == "'":
        return "apostrophe"
    if c == " ":
        return "space"
    if c == ".":
        return "dot"
    if c == "é":
        return "nonascii"
    if c.isdigit():
        return "digit"
    if c == "_":
        return "underscore"
    return "letter"


def shape(s):
    return "+".join(char_class(c) for c in s) or "empty"


def run(maxlen):
    failures = []
    n = 0
    distinct_shapes = set()
    samples = []
    for L in range(0, maxlen + 1):
        for tup in itertools.product(ALPHA, repeat=L):
            s = "".join(tup)
            for kind in ("Table(name)", "table.name=", "NamedRange.name"):
                n += 1
                if kind == "NamedRange.name":
                    exp = range_rule(s)
                else:
                    exp = table_rule(s)
                try:
                    if kind == "Table(name)":
                        got = Table(s).name
                    elif kind == "table.name=":
                        t = Table("init")
                        t.name = s
                        got = t.name
                    else:
                        nr = NamedRange("ok", "A1", "T")
                        nr.name = s
                        got = nr.name
                except (ValueError, TypeError):
                    got = None
                except Exception as e:  # any other exception type is unexpected
                    got = f"raises:{type(e).__name__}"
                if exp is not None:
                    distinct_shapes.add((kind, shape(s)))
                if got != exp:
                    sym = "accepted-but-forbidden" if exp is None else ("rejected-but-allowed" if got is None else "stored-differs")
                    failures.append({
                        "signature": f"site={kind}; class={shape(s)}; symptom={sym}",
                        "replay": {"replay_module": "mc.checks.names_c07", "kind": kind, "name": s, "history": [],
                                   "oracle": "name-rule", "expected": exp, "actual": got},
                    })
                elif len(samples) < 3 and L == maxlen and exp is not None and kind == "table.name=":
                    samples.append({"kind": kind, "name": s, "accepted_as": got})
    cov = {"name_candidates": n, "name_maxlen": maxlen, "name_alphabet": ALPHA,
           "evaluations": n, "distinct_nontrivial": len(distinct_shapes), "samples": samples}
    return failures, cov


def replay(rp):
    s, kind = rp["name"], rp["kind"]
    exp = range_rule(s) if kind == "NamedRange.name" else table_rule(s)
    try:
        if kind == "Table(name)":
            got = Table(s).name
        elif kind == "table.name=":
            t = Table("init")
            t.name = s
            got = t.name
        else:
            nr = NamedRange("ok", "A1", "T")
            nr.name = s
            got = nr.name
    except (ValueError, TypeError):
        got = None
    print(f"{kind} {s!r}: expected {exp!r} got {got!r}")
    return 1 if got != exp else 0
