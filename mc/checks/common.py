"""Glue between engine results and the report (shared by BFS-based checks)."""

from __future__ import annotations

import os
import time

from .. import engine, report


def run_plan(prop, tier, vseed, plan, rule, assumptions, time_budget=None, extra_cov=None,
             extra_failures=None, t0=None):
    """plan: list of (machine, phases). Returns exit code."""
    t0 = t0 or time.time()
    failures = list(extra_failures or [])
    cov = {
        "states": 0,
        "transitions": 0,
        "traces_validated_against_impl": 0,
        "evaluations": 0,
        "distinct_nontrivial": 0,
        "rule": rule,
        "samples": [],
        "machines": {},
        "exhaustive": True,
    }
    errors = []
    outcomes = 0
    for machine, phases in plan:
        res = engine.explore(machine, prop, phases, {}, time_budget=time_budget, vseed=vseed)
        for sidx, hist, op, f in res.failures:
            full = [list(o) for o in hist] + ([list(op)] if op is not None else [])
            failures.append({
                "signature": f["signature"],
                "replay": {
                    "machine": machine.name,
                    "seed": machine.seed_list[sidx],
                    "history": full,
                    "failing_step": len(full) - 1,
                    "oracle": f["oracle"],
                    "expected": f["expected"],
                    "actual": f["actual"],
                },
            })
        for er in res.errors:
            # an exception escaping the harness while driving the implementation is
            # reported as a violation of its own kind (never silently dropped)
            tr = (er.get("trace") or "").strip().splitlines()
            last = tr[-1] if tr else "?"
            failures.append({
                "signature": f"site=harness:{machine.name}; symptom=exception:{last.split(':')[0]}",
                "replay": {"machine": machine.name, "seed": machine.seed_list[er.get("seed", 0)],
                           "history": [list(o) for o in er.get("history", [])], "oracle": "harness-exception",
                           "expected": "no exception", "actual": "\n".join(tr[-6:])},
            })
        cov["states"] += res.states
        cov["transitions"] += res.transitions
        cov["traces_validated_against_impl"] += res.histories
        cov["distinct_nontrivial"] += res.nontrivial_states
        cov["samples"].extend(res.samples[:4])
        cov["machines"][machine.name] = {
            "seeds": res.seeds,
            "states": res.states,
            "transitions": res.transitions,
            "histories_expanded": res.histories,
            "nontrivial_states": res.nontrivial_states,
            "depth_completed": res.depth_completed,
            "distinct_outcomes": len(res.outcomes),
            "alphabet_size_per_seed_max": max(res.alphabet_sizes.values(), default=0),
            "per_depth": res.per_depth,
            "capped": res.capped,
        }
        if res.capped:
            cov["exhaustive"] = False
            cov["capped"] = True
    cov["evaluations"] = cov["transitions"]
    if extra_cov:
        for k, v in extra_cov.items():
            if k in ("states", "transitions", "traces_validated_against_impl", "evaluations", "distinct_nontrivial"):
                cov[k] += v
            elif k == "samples":
                cov["samples"].extend(v)
            else:
                cov[k] = v
    if not cov["samples"]:
        cov["samples"] = [{"note": "no non-trivial sample recorded"}]
    return report.conclude(prop, tier, vseed, failures, cov, assumptions, t0, errors=None)
