"""C03 (save/reopen loses nothing) and C04 (saved zip is a valid package) on the package machine."""

from __future__ import annotations

import os
import shutil
import tempfile
import time

from ..machines.packages import PackageMachine
from .common import run_plan

RULES = {
    "C03": "BFS over edit histories (touch/parse a part, body / meta / style edits, set_part, del_part, add_file, clone, save to zip path / BytesIO / folder, flat XML, reopen) from the 4 templates, every sample document, BytesIO- and folder-opened copies; at every save the package read back with plain zipfile/lxml must equal a dict-of-parts model maintained with plain lxml (XML parts as C14N infosets, other parts byte for byte, no name lost or invented); non-trivial = a save after at least one other operation",
    "C04": "BFS over manifest-relevant histories (add_file by path / file-like / repeated, del_part, image frame, merge_styles_from, clone, save, reopen); every saved zip: mimetype first, stored, valid; no duplicate names; independent manifest parse lists each file exactly once and nothing absent; root entry carries the mimetype",
}
ASSUME = ["zipfile, lxml, CPython trusted", "meta:generator is excluded (documented stamp)", "META-INF/manifest.rdf is judged by C04 only (Document.save reconciles it on purpose)",
          "pretty printing is C11's business: saves here use pretty=False"]


def run(prop, tier, vseed):
    t0 = time.time()
    base = tempfile.mkdtemp(prefix="odfdo_verif_", dir="/dev/shm" if os.path.isdir("/dev/shm") else None)
    os.environ["MC_TMP"] = base
    try:
        m = PackageMachine()
        if prop == "C03":
            if tier == "quick":
                phases = [{"alphabet": "c03", "depth": 2, "seeds": "nobig"}, {"alphabet": "c03", "depth": 3, "seeds": "small"}]
            else:
                phases = [{"alphabet": "c03", "depth": 3, "seeds": "all"}, {"alphabet": "c03", "depth": 4, "seeds": "small"}]
        else:
            if tier == "quick":
                phases = [{"alphabet": "c04", "depth": 2, "seeds": "nobig"}, {"alphabet": "c04", "depth": 3, "seeds": "small"}, {"alphabet": "c04m", "depth": 5, "seeds": "templates"}]
            else:
                phases = [{"alphabet": "c04", "depth": 3, "seeds": "all"}, {"alphabet": "c04", "depth": 4, "seeds": "small"}, {"alphabet": "c04m", "depth": 6, "seeds": "small"}]
        return run_plan(prop, tier, vseed, [(m, phases)], RULES[prop], ASSUME, t0=t0)
    finally:
        shutil.rmtree(base, ignore_errors=True)
