"""C01 / C02 / C07: row machine + table machine, three oracle sets."""

from __future__ import annotations

import time

from ..machines.rows import RowMachine
from ..machines.tables import TableMachine
from .common import run_plan

RULES = {
    "C01": "BFS over public Row/Table operation histories from every run-length encoding seed; after each step every read of the real object is compared with an uncompressed list model; a state is non-trivial when the op changed the key and met a repeated run or carried a repeat > 1",
    "C02": "same histories plus cache-populating reads; after each step live reads == reads of Element.from_tag(serialize()) == independent lxml expansion, position maps == maps recomputed from XML, every cached wrapper wraps its XML item",
    "C07": "same histories; after each step an independent lxml walk checks repeat attributes, child kinds, column/row order, widths and height/width sums",
}
ASSUME = [
    "lxml and CPython are trusted",
    "the reference model (list / list of lists, Python slice semantics for repeated arguments) is the intended meaning of the documented API",
    "bounds: see coverage.machines[*].depth_completed; nothing is claimed beyond them",
]


def run(prop, tier, vseed):
    t0 = time.time()
    rm = RowMachine()
    tm = TableMachine({"save_reload": prop == "C02", "save_reload_depth": 1 if tier == "quick" else 2,
                       "save_reload_seeds": "rep" if tier == "quick" else "all"})
    if tier == "quick" and prop == "C02":
        plan = [
            (rm, [{"alphabet": "full", "depth": 2}]),
            (tm, [{"alphabet": "full", "depth": 1, "seeds": "xmlctor"},
                  {"alphabet": "mini", "depth": 2, "seeds": "rep3"},
                  {"alphabet": "mini", "depth": 2, "seeds": "preread"}]),
        ]
    elif tier == "quick":
        plan = [
            (rm, [{"alphabet": "full", "depth": 2}, {"alphabet": "mini", "depth": 3}]),
            (tm, [{"alphabet": "full", "depth": 1, "seeds": "xmlctor"},
                  {"alphabet": "mini", "depth": 2, "seeds": "rep6"},
                  {"alphabet": "mini", "depth": 2, "seeds": "preread"}]),
        ]
    elif prop == "C02":
        # (each C02 transition costs ~3x a C01 one: fresh parse, independent reader, save + reload)
        plan = [
            (rm, [{"alphabet": "full", "depth": 3}, {"alphabet": "sub", "depth": 4}]),
            (tm, [{"alphabet": "full", "depth": 1, "seeds": "all"},
                  {"alphabet": "full", "depth": 2, "seeds": "rep6"},
                  {"alphabet": "mini", "depth": 2, "seeds": "xmlctor"},
                  {"alphabet": "sub", "depth": 2, "seeds": "preread"}]),
        ]
    else:
        # sized to finish in about 40 minutes on 16 cores (the full alphabet at depth 2 from all 107
        # seeds is 7 M transitions, mini at depth 3 from 16 seeds 16 M: not affordable)
        plan = [
            (rm, [{"alphabet": "full", "depth": 3}, {"alphabet": "sub", "depth": 4}]),
            (tm, [{"alphabet": "full", "depth": 1, "seeds": "all"},
                  {"alphabet": "full", "depth": 2, "seeds": "rep"},
                  {"alphabet": "mini", "depth": 2, "seeds": "xmlctor"},
                  {"alphabet": "mini", "depth": 3, "seeds": "rep3"},
                  {"alphabet": "sub", "depth": 2, "seeds": "preread"}]),
        ]
    extra_f, extra_c = [], None
    if prop == "C07":
        from . import names_c07

        extra_f, nc = names_c07.run(3 if tier == "quick" else 4)
        extra_c = {"names": {k: v for k, v in nc.items() if k != "samples"}, "evaluations": nc["evaluations"],
                   "distinct_nontrivial": nc["distinct_nontrivial"], "samples": nc["samples"]}
    if prop == "C02":
        from . import nested_c02

        extra_f, nn = nested_c02.run()
        extra_c = {"nested_table_experiments": nn, "evaluations": nn, "distinct_nontrivial": 0, "samples": [{"nested": "inner table in a cell of a repeated row", "path": "outer.get_elements('descendant::table:table')"}]}
    return run_plan(prop, tier, vseed, plan, RULES[prop], ASSUME, t0=t0, extra_failures=extra_f, extra_cov=extra_c)
