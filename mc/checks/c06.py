"""C06: typed values survive the trip through the document, for every value of every type.

Bounded exhaustive enumeration: value lattices (products of component boundaries) x carriers x
observation stages {direct, element re-parsed, document saved and reopened}, plus every ordered
pair of type representatives written one after the other on the same carrier.
"""

from __future__ import annotations

import io
import itertools
import re
import time
from datetime import date, datetime, timedelta, timezone
from decimal import Decimal

from odfdo import Cell, Document, Element, Row, Table
from odfdo.variable import UserDefined, UserFieldDecl, VarSet

from .. import report
from .c18 import RE_DATE, RE_DATETIME, RE_DURATION

OFFICE = "urn:oasis:names:tc:opendocument:xmlns:office:1.0"
RE_DOUBLE = re.compile(r"^[+-]?(\d+(\.\d*)?|\.\d+)([eE][+-]?\d+)?$")


def lattice():
    vals = []
    vals += [True, False]
    vals += [0, 1, -1, 2, 2**31, -(2**31), 2**63, -(2**63), 10**30, 123456789]
    vals += [0.0, -0.0, 0.1, 1.5, -2.25, 1e-7, 1e21, 1.7976e308, 5e-324, 123456.789]
    vals += [Decimal("0"), Decimal("1.50"), Decimal("-0.001"), Decimal("1E+3"), Decimal("123456789.123456789"), Decimal("2.0")]
    sig = ["a", " ", "\t", "\n", "<", "&", "é", '"']
    strs = [""]
    for n in (1, 2, 3):
        for tup in itertools.product(sig, repeat=n):
            strs.append("".join(tup))
    strs += [" a  b ", "2024-01-31T", "true", "false", "True", "1", "1.5", "PT1H", "None", "x" * 200]
    vals += strs
    for y in (1, 2, 999, 1999, 2000, 2024, 9999):
        for mo, d in ((1, 1), (2, 28), (2, 29), (12, 31)):
            try:
                vals.append(date(y, mo, d))
            except ValueError:
                continue
    for y, (mo, d), (h, mi, s), us, tz in itertools.product((1, 1999, 2024, 9999), ((1, 1), (2, 29), (12, 31)), ((0, 0, 0), (12, 34, 56), (23, 59, 59)),
                                                             (0, 1, 999999), (None, timezone.utc, timezone(timedelta(hours=5, minutes=30)), timezone(timedelta(hours=-11)))):
        try:
            vals.append(datetime(y, mo, d, h, mi, s, us, tz))
        except ValueError:
            continue
    for sec in (0, 1, 59, 60, 3599, 3600, 86399, 86400, 2 * 86400 + 3 * 3600 + 4 * 60 + 5, 400 * 86400):
        vals.append(timedelta(seconds=sec))
        if sec:
            vals.append(timedelta(seconds=-sec))
    vals.append(None)
    return vals


def vclass(v):
    if v is None:
        return "None"
    if isinstance(v, bool):
        return "bool"
    if isinstance(v, int):
        return "int" + (",huge" if abs(v) >= 2**53 else "")
    if isinstance(v, float):
        return "float" + (",exponent" if "e" in repr(v) else "")
    if isinstance(v, Decimal):
        return "Decimal"
    if isinstance(v, str):
        parts = ["str"]
        if v in ("true", "false"):
            parts.append("boolean-word")
        if v == "":
            parts.append("empty")
        if any(c in v for c in " \t\n"):
            parts.append("white-space")
        if any(c in v for c in '<&"'):
            parts.append("xml-special")
        return ",".join(parts)
    if isinstance(v, datetime):
        return "datetime" + (",aware" if v.tzinfo else ",naive") + (",micro" if v.microsecond else "") + (",year<1000" if v.year < 1000 else "")
    if isinstance(v, date):
        return "date" + (",year<1000" if v.year < 1000 else "")
    if isinstance(v, timedelta):
        return "timedelta" + (",negative" if v < timedelta(0) else "") + (",multi-day" if abs(v) >= timedelta(days=1) else "")
    return type(v).__name__


def equal(stored, back):
    if stored is None:
        return back is None
    if isinstance(stored, bool):
        return isinstance(back, bool) and back == stored
    if isinstance(stored, int):
        return isinstance(back, (int, Decimal)) and not isinstance(back, bool) and back == stored
    if isinstance(stored, (float, Decimal)):
        if isinstance(back, bool) or not isinstance(back, (int, Decimal, float)):
            return False
        return Decimal(str(back)) == Decimal(str(stored))
    if isinstance(stored, str):
        return isinstance(back, str) and back == stored
    if isinstance(stored, datetime):
        return isinstance(back, datetime) and back == stored and (back.tzinfo is None) == (stored.tzinfo is None) and back.utcoffset() == stored.utcoffset()
    if isinstance(stored, date):
        return (isinstance(back, datetime) and back == datetime(stored.year, stored.month, stored.day)) or (type(back) is date and back == stored)
    if isinstance(stored, timedelta):
        return isinstance(back, timedelta) and back == stored
    return False


def lexical_ok(elem):
    """Attributes of a typed element are in the ODF lexical space."""
    e = elem._Element__element
    vt = e.get("{%s}value-type" % OFFICE)
    checks = []
    if vt in ("float", "percentage", "currency"):
        checks.append(("office:value", e.get("{%s}value" % OFFICE), RE_DOUBLE))
    elif vt == "date":
        v = e.get("{%s}date-value" % OFFICE)
        checks.append(("office:date-value", v, RE_DATETIME if v and "T" in v else RE_DATE))
    elif vt == "time":
        checks.append(("office:time-value", e.get("{%s}time-value" % OFFICE), RE_DURATION))
    elif vt == "boolean":
        checks.append(("office:boolean-value", e.get("{%s}boolean-value" % OFFICE), re.compile("^(true|false)$")))
    for name, val, rx in checks:
        if val is None or not rx.match(val):
            return (name, val)
    # no value attribute of another type may be left
    left = [a for a in ("value", "date-value", "time-value", "boolean-value", "string-value") if e.get("{%s}%s" % (OFFICE, a)) is not None]
    allowed = {"float": {"value"}, "percentage": {"value"}, "currency": {"value"}, "date": {"date-value"}, "time": {"time-value"}, "boolean": {"boolean-value"}, "string": {"string-value"}, None: set()}
    extra = set(left) - allowed.get(vt, set())
    if extra:
        return ("leftover-attribute", sorted(extra))
    return None


# ---------------------------------------------------------------- carriers: (name, make(v) -> element, write(elem, v), read(elem))
def carriers():
    def cell_new(v):
        return Cell(v)

    def cell_setv(v):
        c = Cell(12345)
        c.set_value(v)
        return c

    def cell_prop(v):
        c = Cell("zzz")
        c.value = v
        return c

    def row_setv(v):
        r = Row(3)
        r.set_value(1, v)
        return r

    def table_setv(v):
        t = Table("T", width=2, height=2)
        t.set_value((1, 1), v)
        return t

    out = [
        ("Cell(value)", cell_new, lambda c, v: c.set_value(v), lambda c: c.get_value(), lambda c: c),
        ("Cell.set_value", cell_setv, lambda c, v: c.set_value(v), lambda c: c.get_value(), lambda c: c),
        ("Cell.value=", cell_prop, lambda c, v: setattr(c, "value", v), lambda c: c.value, lambda c: c),
        ("Row.set_value", row_setv, lambda r, v: r.set_value(1, v), lambda r: r.get_value(1), lambda r: r.get_cell(1, clone=False)),
        ("Table.set_value", table_setv, lambda t, v: t.set_value((1, 1), v), lambda t: t.get_value((1, 1)), lambda t: t.get_cell((1, 1), clone=False)),
        ("VarSet(value)", lambda v: VarSet("var", value=v), lambda e, v: e.set_value(v), lambda e: e.get_value(), lambda e: e),
        ("UserFieldDecl(value)", lambda v: UserFieldDecl("uf", value=v), lambda e, v: e.set_value(v), lambda e: e.get_value(), lambda e: e),
        ("UserDefined(value)", lambda v: UserDefined("ud", value=v), None, lambda e: e.get_value(), lambda e: e),
    ]
    return out


def run_values():
    fails = []
    n = 0
    classes = set()
    vals = lattice()

    def rec(site, v, stage, oracle, exp, act, symptom):
        fails.append({"signature": f"site={site}; class={vclass(v)},{stage}; symptom={symptom}",
                      "replay": {"replay_module": "mc.checks.c06", "site": site, "value": repr(v), "stage": stage, "history": [], "oracle": oracle, "expected": repr(exp), "actual": repr(act)}})

    for name, make, write, read, typed in carriers():
        for v in vals:
            if name.startswith("Cell.value=") and isinstance(v, str) and False:
                continue
            n += 1
            classes.add((name, vclass(v)))
            try:
                e = make(v)
                back = read(e)
            except Exception as ex:
                rec(name, v, "direct", "raises", v, f"{type(ex).__name__}: {ex}"[:120], f"raises:{type(ex).__name__}")
                continue
            if not equal(v, back):
                rec(name, v, "direct", "read-back", v, back, "value-differs")
                continue
            bad = lexical_ok(typed(e))
            if bad:
                rec(name, v, "direct", "lexical-form", "ODF lexical space", bad, "attribute-not-in-lexical-space")
            # re-parse
            try:
                e2 = Element.from_tag(e.serialize())
                back2 = read(e2)
                if not equal(v, back2):
                    rec(name, v, "reparsed", "read-back", v, back2, "value-differs")
            except Exception as ex:
                rec(name, v, "reparsed", "raises", v, f"{type(ex).__name__}: {ex}"[:120], f"raises:{type(ex).__name__}")
    return n, fails, classes


def run_pairs():
    """v1 then v2 on the same carrier: nothing of v1 may survive."""
    fails = []
    n = 0
    reps = [True, 7, 1.5, Decimal("2.50"), "txt", "", "true", date(2024, 1, 31), datetime(2024, 1, 31, 12, 34, 56), datetime(2024, 1, 31, 1, 2, 3, tzinfo=timezone.utc), timedelta(hours=1, seconds=5), None]
    for name, make, write, read, typed in carriers():
        if write is None:
            continue
        for v1, v2 in itertools.product(reps, reps):
            n += 1
            try:
                e = make(v1)
                write(e, v2)
                back = read(e)
                ok = equal(v2, back)
                bad = lexical_ok(typed(e)) if ok else None
                if ok:
                    e2 = Element.from_tag(e.serialize())
                    ok = equal(v2, read(e2))
            except Exception as ex:
                ok, back, bad = False, f"{type(ex).__name__}: {ex}"[:100], None
            if not ok or bad:
                fails.append({"signature": f"site={name}; class=overwrite:{vclass(v1).split(',')[0]}->{vclass(v2).split(',')[0]}; symptom={'leftover-or-wrong-value' if not ok else 'attribute-not-in-lexical-space'}",
                              "replay": {"replay_module": "mc.checks.c06", "site": name, "value": [repr(v1), repr(v2)], "stage": "overwrite", "history": [], "oracle": "overwrite", "expected": repr(v2), "actual": repr(back if not ok else bad)}})
    return n, fails


def run_neighbours():
    """Several values written at once (Row.set_values, Table.set_values, Table.set_row_values,
    Table.set_column_values, Row.extend_cells): each keeps its own type next to values that compare
    equal in Python (True == 1 == 1.0 == Decimal(1), False == 0) or that are written twice."""
    fails = []
    n = 0
    reps = [True, False, 1, 0, 1.0, Decimal("1"), Decimal("2.50"), 7, "txt", "1", "true", "", date(2024, 1, 31), datetime(2024, 1, 31, 0, 0, 0),
            timedelta(0), timedelta(hours=1, seconds=5), None]

    def writers():
        def row_set_values(vs):
            r = Row()
            r.set_values(list(vs))
            return [r.get_value(i) for i in range(len(vs))], r

        def row_set_values_on_existing(vs):
            r = Row(width=1)
            r.set_values(list(vs))
            return [r.get_value(i) for i in range(len(vs))], r

        def row_set_values_at_1(vs):
            r = Row(width=1)
            r.set_values(list(vs), start=1)
            return [r.get_value(i + 1) for i in range(len(vs))], r

        def table_set_values(vs):
            t = Table("T")
            t.set_values([list(vs), list(reversed(vs))])
            return [t.get_value((i, 0)) for i in range(len(vs))], t

        def table_set_row_values(vs):
            t = Table("T", width=2, height=1)
            t.set_row_values(0, list(vs))
            return [t.get_value((i, 0)) for i in range(len(vs))], t

        def table_set_column_values(vs):
            t = Table("T", width=1, height=len(vs))
            t.set_column_values(0, list(vs))
            return [t.get_value((0, i)) for i in range(len(vs))], t

        return [("Row.set_values", row_set_values), ("Row.set_values(existing row)", row_set_values_on_existing), ("Row.set_values(start=1)", row_set_values_at_1),
                ("Table.set_values", table_set_values), ("Table.set_row_values", table_set_row_values), ("Table.set_column_values", table_set_column_values)]

    for name, w in writers():
        for v1, v2 in itertools.product(reps, reps):
            for vs in ((v1, v2), (v1, v2, v1)):
                n += 1
                try:
                    back, holder = w(vs)
                    ok = all(equal(a, b) for a, b in zip(vs, back))
                    if ok:
                        h2 = Element.from_tag(holder.serialize())
                        if isinstance(h2, Row):
                            back = [h2.get_value(i + (1 if "start=1" in name else 0)) for i in range(len(vs))]
                        elif "column" in name:
                            back = [h2.get_value((0, i)) for i in range(len(vs))]
                        else:
                            back = [h2.get_value((i, 0)) for i in range(len(vs))]
                        ok = all(equal(a, b) for a, b in zip(vs, back))
                except Exception as ex:
                    ok, back = False, f"{type(ex).__name__}: {ex}"[:100]
                if not ok:
                    fails.append({"signature": f"site={name}; class=neighbours:{vclass(v1).split(',')[0]}+{vclass(v2).split(',')[0]}; symptom=value-differs",
                                  "replay": {"replay_module": "mc.checks.c06", "site": name, "value": [repr(v) for v in vs], "stage": "neighbours", "history": [], "oracle": "each value keeps its type", "expected": repr(list(vs)), "actual": repr(back)}})
    return n, fails


def run_documents():
    """Stage 3: save + reopen. One spreadsheet with a cell per value, one text document with
    a variable, a user field and a user-defined metadata entry per value."""
    fails = []
    n = 0
    vals = lattice()

    def rec(site, v, exp, act, symptom):
        fails.append({"signature": f"site={site}; class={vclass(v)},saved-and-reopened; symptom={symptom}",
                      "replay": {"replay_module": "mc.checks.c06", "site": site, "value": repr(v), "stage": "saved", "history": [], "oracle": "read-back", "expected": repr(exp), "actual": repr(act)}})

    # spreadsheet
    doc = Document("spreadsheet")
    body = doc.body
    body.clear()
    t = Table("Values")
    for y, v in enumerate(vals):
        t.set_value((0, y), v)
        r = t.get_row(y)
        r.set_value(1, v)
        t.set_row(y, r)
    body.append(t)
    buf = io.BytesIO()
    doc.save(buf)
    doc2 = Document(io.BytesIO(buf.getvalue()))
    t2 = doc2.body.get_table(name="Values")
    for y, v in enumerate(vals):
        for x, site in ((0, "Table.set_value"), (1, "Row.set_value")):
            n += 1
            try:
                back = t2.get_value((x, y))
            except Exception as ex:
                back = f"{type(ex).__name__}: {ex}"[:100]
            if not equal(v, back):
                rec(site, v, v, back, "value-differs")
    # text document: variables, user fields, user defined metadata
    doc = Document("text")
    body = doc.body
    from odfdo import Paragraph

    ufd = body.get_user_field_decls()
    for i, v in enumerate(vals):
        if v is None:
            continue
        p = Paragraph("")
        p.append(VarSet(f"v{i}", value=v))
        body.append(p)
        ufd.append(UserFieldDecl(f"u{i}", value=v))
        doc.meta.set_user_defined_metadata(f"m{i}", v)
    buf = io.BytesIO()
    doc.save(buf)
    doc2 = Document(io.BytesIO(buf.getvalue()))
    try:
        meta = doc2.meta.get_user_defined_metadata()
    except Exception as ex:  # one unreadable entry makes the whole dict unreadable: reported per entry below
        meta = None
        meta_exc = ex

    def meta_get(key):
        if meta is None:
            # read the entry alone
            return doc2.meta.get_user_defined_metadata_of_name(key)["value"]
        return meta[key]

    for i, v in enumerate(vals):
        if v is None:
            continue
        for site, getter in (("VarSet(value)", lambda: doc2.body.get_variable_set(f"v{i}").get_value()),
                             ("UserFieldDecl(value)", lambda: doc2.body.get_user_field_decl(f"u{i}").get_value()),
                             ("Meta.set_user_defined_metadata", lambda: meta_get(f"m{i}"))):
            n += 1
            try:
                back = getter()
            except Exception as ex:
                back = f"{type(ex).__name__}: {ex}"[:100]
            if not equal(v, back):
                rec(site, v, v, back, "value-differs")
    # meta: direct (before saving) and overwrite pairs
    doc = Document("text")
    reps = [True, 7, 1.5, "txt", "true", date(2024, 1, 31), datetime(2024, 1, 31, 12, 34, 56), timedelta(hours=1, seconds=5)]
    for v1, v2 in itertools.product(reps, reps):
        n += 1
        try:
            doc.meta.set_user_defined_metadata("k", v1)
            doc.meta.set_user_defined_metadata("k", v2)
            back = doc.meta.get_user_defined_metadata().get("k")
        except Exception as ex:
            back = f"{type(ex).__name__}: {ex}"[:100]
            doc = Document("text")
        if not equal(v2, back):
            fails.append({"signature": f"site=Meta.set_user_defined_metadata; class=overwrite:{vclass(v1).split(',')[0]}->{vclass(v2).split(',')[0]}; symptom=leftover-or-wrong-value",
                          "replay": {"replay_module": "mc.checks.c06", "site": "Meta.set_user_defined_metadata", "value": [repr(v1), repr(v2)], "stage": "overwrite", "history": [], "oracle": "overwrite", "expected": repr(v2), "actual": repr(back)}})
    return n, fails


def run(prop, tier, vseed):
    t0 = time.time()
    n1, f1, classes = run_values()
    n2, f2 = run_pairs()
    n3, f3 = run_documents()
    n4, f4 = run_neighbours()
    n3, f3 = n3 + n4, f3 + f4
    nev = n1 + n2 + n3
    cov = {
        "states": nev,
        "transitions": nev,
        "traces_validated_against_impl": nev,
        "evaluations": nev,
        "distinct_nontrivial": len(classes),
        "values": len(lattice()),
        "rule": "value lattice (bool, int incl. huge/negative, float incl. exponents, Decimal incl. trailing zeros, every string of length <= 3 over an alphabet with white space / XML-special / non-ASCII plus type look-alikes, dates years 1..9999, datetimes x microseconds x zones, whole-second durations incl. negative and multi-day, None) x 8 element carriers x {direct, re-parsed} + saved-and-reopened spreadsheet and text documents (cells, rows, variables, user fields, user-defined metadata) + every ordered pair of type representatives written on the same carrier + every ordered pair (and triple v1,v2,v1) of 17 representatives, including values equal in Python but of different ODF types, written at once through Row.set_values / Table.set_values / set_row_values / set_column_values; distinct_nontrivial = distinct (carrier, value class) pairs",
        "samples": [{"carrier": "Table.set_value", "value": "datetime(2024,2,29,23,59,59,999999,+05:30)", "stages": ["direct", "reparsed", "saved"]}],
        "exhaustive": True,
    }
    assume = ["lxml trusted", "documented type map: float/Decimal read back as Decimal or int numerically equal; date read back as datetime at midnight (Date.decode is documented to return datetime)",
              "inf / nan are outside the stated domain; durations are whole seconds"]
    return report.conclude(prop, tier, vseed, f1 + f2 + f3, cov, assume, t0)


def replay(rp):
    print("re-run ./run C06 quick; recorded case:", rp["site"], rp["value"], rp["stage"], "expected", rp["expected"], "actual", rp["actual"])
    n1, f1, _ = run_values()
    n2, f2 = run_pairs()
    n3, f3 = run_documents()
    n4, f4 = run_neighbours()
    n3, f3 = n3 + n4, f3 + f4
    hits = [x for x in f1 + f2 + f3 if x["replay"]["site"] == rp["site"] and x["replay"]["value"] == rp["value"] and x["replay"]["stage"] == rp["stage"]]
    return 1 if hits else 0
