"""C18: date, time, duration, boolean, colour, length codecs: exact inverses, ODF lexical form,
rejection of strings outside the form (bounded exhaustive enumeration)."""

from __future__ import annotations

import itertools
import multiprocessing as mp
import os
import re
import time
from datetime import date, datetime, timedelta, timezone
from decimal import Decimal

from odfdo.datatype import Boolean, Date, DateTime, Duration, Unit
from odfdo.utils.color import hex2rgb, hexa_color, rgb2hex

from .. import report

RE_DATE = re.compile(r"^-?\d{4,}-\d{2}-\d{2}$")
RE_DATETIME = re.compile(r"^-?\d{4,}-\d{2}-\d{2}T\d{2}:\d{2}:\d{2}(\.\d+)?(Z|[+-]\d{2}:\d{2})?$")
RE_DURATION = re.compile(r"^-?P(\d+Y)?(\d+M)?(\d+D)?(T(\d+H)?(\d+M)?(\d+(\.\d+)?S)?)?$")
RE_COLOR = re.compile(r"^#[0-9a-fA-F]{6}$")
RE_LENGTH = re.compile(r"^-?(\d+(\.\d*)?|\.\d+)(cm|mm|in|pt|pc|px)$")
MUT_ALPHA = "09-:TZP.HMSD +"


# ---------------------------------------------------------------- independent lenient readers
def lenient_datetime(s):
    """Lenient ISO-8601 reading (extended or basic, any single non-digit separator between date
    and time, optional fraction and zone). Returns datetime or None."""
    m = re.match(r"^(\d{4})-?(\d{2})-?(\d{2})(?:[^0-9](\d{2})(?::?(\d{2})(?::?(\d{2})(?:[.,](\d+))?)?)?)?(Z|[+-]\d{2}(?::?\d{2}(?::?\d{2}(?:\.\d+)?)?)?)?$", s)
    if not m:
        return None
    y, mo, d, hh, mi, ss, frac, tz = m.groups()
    if hh is None and tz:
        return None
    try:
        us = int((frac or "0")[:6].ljust(6, "0")) if frac else 0
        tzinfo = None
        if tz:
            if tz == "Z":
                tzinfo = timezone.utc
            else:
                sign = -1 if tz[0] == "-" else 1
                digits = re.sub(r"[^0-9.]", "", tz[1:])
                h = int(digits[0:2])
                mn = int(digits[2:4] or 0)
                sc = float(digits[4:] or 0)
                tzinfo = timezone(sign * timedelta(hours=h, minutes=mn, seconds=sc))
        return datetime(int(y), int(mo), int(d), int(hh or 0), int(mi or 0), int(ss or 0), us, tzinfo)
    except (ValueError, OverflowError):
        return None


def lenient_duration(s):
    m = re.match(r"^(-)?P(?:(\d+)D)?T?(?:(\d+)H)?(?:(\d+)M)?(?:(\d+)(?:\.(\d+))?S)?$", s)
    if not m or s in ("P", "-P", "PT", "-PT"):
        return None
    sign, d, h, mi, sec, frac = m.groups()
    td = timedelta(days=int(d or 0), hours=int(h or 0), minutes=int(mi or 0), seconds=int(sec or 0),
                   microseconds=int((frac or "0")[:6].ljust(6, "0")) if frac else 0)
    return -td if sign else td


def mutations(s):
    out = set()
    for i in range(len(s)):
        out.add(s[:i] + s[i + 1 :])
        for c in MUT_ALPHA:
            out.add(s[:i] + c + s[i + 1 :])
    for i in range(len(s) + 1):
        for c in MUT_ALPHA:
            out.add(s[:i] + c + s[i:])
    out.discard(s)
    return sorted(out)


def char_class(orig, mut):
    if len(mut) < len(orig):
        return "deletion"
    if len(mut) > len(orig):
        return "insertion"
    return "substitution"


# ---------------------------------------------------------------- tasks
def fail(fails, site, cls, oracle, exp, act, symptom, value):
    fails.append({"signature": f"site={site}; class={cls}; symptom={symptom}",
                  "replay": {"replay_module": "mc.checks.c18", "site": site, "value": value, "history": [], "oracle": oracle, "expected": exp, "actual": act}})


def task_dates(years):
    fails, n = [], 0
    for y in years:
        d = date(y, 1, 1)
        while d.year == y:
            n += 1
            try:
                s = Date.encode(d)
                back = Date.decode(s)
                ok = RE_DATE.match(s) and back == datetime(d.year, d.month, d.day)
            except Exception as e:
                s, back, ok = None, f"raises:{type(e).__name__}", False
            if not ok:
                fail(fails, "Date", "year<1000" if y < 1000 else "year>=1000", "roundtrip", str(d), [s, str(back)], "date-roundtrip", str(d))
            if d == date.max:
                break
            d += timedelta(days=1)
    return n, fails, len(years)


def dt_lattice(tier):
    years = [1, 2, 999, 1000, 1999, 2000, 2024, 9999] if tier == "quick" else [1, 2, 4, 100, 400, 999, 1000, 1900, 1999, 2000, 2023, 2024, 9998, 9999]
    days = [(1, 1), (2, 28), (2, 29), (12, 31), (6, 15)]
    times = [(0, 0, 0), (0, 0, 1), (12, 34, 56), (23, 59, 59)]
    micros = [0, 1, 500000, 999999, 120000]
    tzs = [None, timezone.utc, timezone(timedelta(0)), timezone(timedelta(hours=5, minutes=30)), timezone(timedelta(hours=-11)), timezone(timedelta(hours=14)), timezone(timedelta(minutes=-1))]
    for y, (mo, dd), (h, mi, s), us, tz in itertools.product(years, days, times, micros, tzs):
        try:
            yield datetime(y, mo, dd, h, mi, s, us, tz)
        except ValueError:
            continue


def task_datetimes(tier):
    fails, n = [], 0
    classes = set()
    for v in dt_lattice(tier):
        n += 1
        cls = ("aware" if v.tzinfo else "naive") + ("," + "micro" if v.microsecond else "") + (",year<1000" if v.year < 1000 else "")
        classes.add(cls)
        try:
            s = DateTime.encode(v)
            back = DateTime.decode(s)
            ok = bool(RE_DATETIME.match(s)) and back == v and (back.tzinfo is None) == (v.tzinfo is None) and back.utcoffset() == v.utcoffset()
        except Exception as e:
            s, back, ok = None, f"raises:{type(e).__name__}", False
        if not ok:
            fail(fails, "DateTime", cls, "roundtrip", v.isoformat(), [s, str(back)], "datetime-roundtrip", v.isoformat())
        # a datetime carried as a Date keeps its day
        try:
            ds = Date.encode(v)
            if ds != f"{v.year:04d}-{v.month:02d}-{v.day:02d}":
                fail(fails, "Date.encode(datetime)", cls, "date-of-datetime", f"{v.year:04d}-{v.month:02d}-{v.day:02d}", ds, "date-roundtrip", v.isoformat())
        except Exception as e:
            fail(fails, "Date.encode(datetime)", cls, "raises", "no exception", type(e).__name__, f"raises:{type(e).__name__}", v.isoformat())
    return n, fails, len(classes)


def task_durations(rng):
    lo, hi = rng
    fails, n = [], 0
    for sec in range(lo, hi):
        n += 1
        v = timedelta(seconds=sec)
        try:
            s = Duration.encode(v)
            back = Duration.decode(s)
            ok = bool(RE_DURATION.match(s)) and back == v
        except Exception as e:
            s, back, ok = None, f"raises:{type(e).__name__}", False
        if not ok:
            cls = ("negative" if sec < 0 else "positive") + ("," + "multi-day" if abs(sec) >= 86400 else "")
            fail(fails, "Duration", cls, "roundtrip", str(v), [s, str(back)], "duration-roundtrip", sec)
    return n, fails, 2


def task_duration_lattice(_):
    fails, n = [], 0
    vals = []
    for k in range(0, 7):
        for extra in (0, 1, 59, 60, 3599, 3600, 86399):
            for sign in (1, -1):
                vals.append(sign * (10**k * 86400 + extra))
    vals += [400 * 86400, -400 * 86400, 36500 * 86400 + 86399, 2**31, -(2**31), 2**40 + 1]
    for sec in vals:
        n += 1
        v = timedelta(seconds=sec)
        try:
            s = Duration.encode(v)
            back = Duration.decode(s)
            ok = bool(RE_DURATION.match(s)) and back == v
        except Exception as e:
            s, back, ok = None, f"raises:{type(e).__name__}", False
        if not ok:
            fail(fails, "Duration", "large-magnitude" + (",negative" if sec < 0 else ""), "roundtrip", str(v), [s, str(back)], "duration-roundtrip", sec)
    return n, fails, 2


def task_colors(rng):
    lo, hi = rng
    fails, n = [], 0
    for r in range(lo, hi):
        for g in range(256):
            for b in range(256):
                n += 1
                s = rgb2hex((r, g, b))
                if not RE_COLOR.match(s) or hex2rgb(s) != (r, g, b) or hex2rgb(s.lower()) != (r, g, b) or hexa_color((r, g, b)) != s:
                    fail(fails, "color", "24-bit", "roundtrip", (r, g, b), s, "color-roundtrip", [r, g, b])
                    break
    return n, fails, 1


def task_color_lattice(_):
    from odfdo.const import CSS3_COLORMAP

    fails, n = [], 0
    lat = [0, 1, 15, 16, 127, 128, 254, 255]
    for r, g, b in itertools.product(lat, repeat=3):
        n += 1
        s = rgb2hex((r, g, b))
        if not RE_COLOR.match(s) or hex2rgb(s) != (r, g, b) or hex2rgb(s.lower()) != (r, g, b):
            fail(fails, "color", "lattice", "roundtrip", (r, g, b), s, "color-roundtrip", [r, g, b])
    for name, rgb in CSS3_COLORMAP.items():
        for form in (name, name.upper(), name.title()):
            n += 1
            try:
                s = rgb2hex(form)
                ok = RE_COLOR.match(s) and hex2rgb(s) == tuple(rgb) and hexa_color(form) == s
            except Exception as e:
                s, ok = f"raises:{type(e).__name__}", False
            if not ok:
                fail(fails, "color", "css-name", "roundtrip", [form, list(rgb)], s, "color-roundtrip", form)
    # rejection
    for bad in ["#12345", "#1234567", "123456", "#12345G", "#12 456", "", "#", "#-12345", "#+12345", "#12.456", "#ÀÀÀÀÀÀ", "#١٢٣٤٥٦"]:
        n += 1
        try:
            v = hex2rgb(bad)
            fail(fails, "hex2rgb", "malformed", "rejects", "ValueError", v, "wrong-value-instead-of-rejection", bad)
        except ValueError:
            pass
        except Exception as e:
            fail(fails, "hex2rgb", "malformed", "rejects", "ValueError", type(e).__name__, f"raises:{type(e).__name__}", bad)
    for bad in [(256, 0, 0), (-1, 0, 0), (0, 0, 300)]:
        n += 1
        try:
            v = rgb2hex(bad)
            fail(fails, "rgb2hex", "out-of-range", "rejects", "ValueError", v, "wrong-value-instead-of-rejection", list(bad))
        except ValueError:
            pass
    return n, fails, 3


def task_bool_unit(_):
    fails, n = [], 0
    for v in (True, False):
        n += 1
        s = Boolean.encode(v)
        if s not in ("true", "false") or Boolean.decode(s) is not v:
            fail(fails, "Boolean", "bool", "roundtrip", v, s, "boolean-roundtrip", v)
    for sp, exp in (("true", "true"), ("false", "false"), ("True", "true"), ("FALSE", "false"), (b"true", "true"), (b"false", "false")):
        n += 1
        try:
            s = Boolean.encode(sp)
        except Exception as e:
            s = f"raises:{type(e).__name__}"
        if s != exp:
            fail(fails, "Boolean.encode", "bytes" if isinstance(sp, bytes) else "str", "spelling", exp, s, "boolean-spelling", repr(sp))
    for bad in ("", "True", "TRUE", "1", "0", "yes", " true", "true ", "truefalse", "fals"):
        n += 1
        try:
            v = Boolean.decode(bad)
            fail(fails, "Boolean.decode", "malformed", "rejects", "ValueError", v, "wrong-value-instead-of-rejection", bad)
        except ValueError:
            pass
    units = ["cm", "mm", "in", "pt", "pc", "px"]
    values = ["0", "1", "1.5", "0.25", "10", "17.5", "100", "0.001", "1234.5678"]
    for val, u in itertools.product(values, units):
        for ctor in ("str", "decimal", "float", "int"):
            n += 1
            try:
                if ctor == "str":
                    unit = Unit(val + u)
                elif ctor == "decimal":
                    unit = Unit(Decimal(val), u)
                elif ctor == "float":
                    unit = Unit(float(val), u)
                else:
                    if "." in val:
                        continue
                    unit = Unit(int(val), u)
                s = str(unit)
                back = Unit(s)
                ok = bool(RE_LENGTH.match(s)) and back.unit == u and back.value == Decimal(val) and unit.value == Decimal(val) and back == unit
            except Exception as e:
                s, ok = f"raises:{type(e).__name__}", False
            if not ok:
                fail(fails, "Unit", f"ctor={ctor}", "roundtrip", val + u, s, "length-roundtrip", [val, u, ctor])
    for val, u in itertools.product(["-1", "-0.5", "-17.5"], ["cm", "pt"]):
        n += 1
        try:
            unit = Unit(Decimal(val), u)
            s = str(unit)
            back = Unit(s)
            ok = bool(RE_LENGTH.match(s)) and back.unit == u and back.value == Decimal(val)
        except Exception as e:
            s, ok = f"raises:{type(e).__name__}", False
        if not ok:
            fail(fails, "Unit", "negative", "roundtrip", val + u, [s, str(getattr(back, "value", None)) + "|" + str(getattr(back, "unit", None))] if "back" in dir() else s, "length-roundtrip", [val, u])
    return n, fails, 4


def task_rejection(kind):
    """Single-character edits of valid encodings: decode raises, or returns what a lenient reading assigns."""
    fails, n = [], 0
    classes = set()
    if kind == "datetime":
        base = [datetime(2024, 1, 31, 12, 34, 56), datetime(1999, 12, 31, 23, 59, 59, 999999), datetime(2000, 2, 29, 0, 0, 0, tzinfo=timezone.utc),
                datetime(2024, 6, 15, 1, 2, 3, 120000, tzinfo=timezone(timedelta(hours=5, minutes=30))), datetime(1, 1, 1, 0, 0, 0)]
        enc, dec, lenient = DateTime.encode, DateTime.decode, lenient_datetime
    elif kind == "date":
        base = [date(2024, 1, 31), date(1999, 12, 31), date(2000, 2, 29), date(1, 1, 1), date(9999, 12, 31)]
        enc, dec, lenient = Date.encode, Date.decode, lenient_datetime
    else:
        base = [timedelta(0), timedelta(seconds=1), timedelta(hours=1, minutes=2, seconds=3), timedelta(days=2, hours=3, minutes=4, seconds=5),
                -timedelta(hours=1, minutes=2, seconds=3), timedelta(days=400), -timedelta(seconds=59)]
        enc, dec, lenient = Duration.encode, Duration.decode, lenient_duration
    for v in base:
        s0 = enc(v)
        for s in mutations(s0):
            n += 1
            cls = char_class(s0, s)
            classes.add((kind, cls))
            try:
                got = dec(s)
            except (ValueError, TypeError):
                continue
            except Exception as e:
                fail(fails, f"{kind}.decode", cls, "rejects", "ValueError", type(e).__name__, f"raises:{type(e).__name__}", s)
                continue
            want = lenient(s)
            same = want is not None and got == want
            if same and kind != "duration" and (got.tzinfo is None) != (want.tzinfo is None):
                same = False
            if not same:
                fail(fails, f"{kind}.decode", cls + ("," + ("has-dot" if "." in s else "no-dot") if kind == "duration" else ""), "rejects-or-lenient-value",
                     "ValueError" if want is None else str(want), str(got), "wrong-value-instead-of-rejection", s)
    return n, fails, len(classes)


def dispatch(task):
    name, arg = task
    return globals()[name](arg)


def run(prop, tier, vseed):
    t0 = time.time()
    tasks = []
    if tier == "quick":
        for y in ([1], [2], [4], [100], [400], [1999], [2000], [2024], [9998], [9999]):
            tasks.append(("task_dates", y))
        for lo in range(-172800, 172801, 21600):
            tasks.append(("task_durations", (lo, min(lo + 21600, 172801))))
        tasks.append(("task_colors", (0, 2)))
        tasks.append(("task_colors", (127, 129)))
        tasks.append(("task_colors", (254, 256)))
    else:
        for y0 in range(1, 10000, 100):
            tasks.append(("task_dates", list(range(y0, min(y0 + 100, 10000)))))
        for lo in range(-864000, 864001, 43200):
            tasks.append(("task_durations", (lo, min(lo + 43200, 864001))))
        for r in range(0, 256, 4):
            tasks.append(("task_colors", (r, r + 4)))
    tasks += [("task_datetimes", tier), ("task_duration_lattice", None), ("task_color_lattice", None), ("task_bool_unit", None),
              ("task_rejection", "datetime"), ("task_rejection", "date"), ("task_rejection", "duration")]
    nproc = int(os.environ.get("VERIF_NPROC", "0")) or min(16, os.cpu_count() or 1)
    nev = 0
    failures = []
    ncls = 0
    with mp.get_context("fork").Pool(nproc) as pool:
        for a, f, c in pool.imap_unordered(dispatch, tasks, chunksize=1):
            nev += a
            failures.extend(f)
            if len(failures) > 20000:
                failures = report.compact(failures)
            ncls += c
    cov = {
        "states": nev,
        "transitions": nev,
        "traces_validated_against_impl": nev,
        "evaluations": nev,
        "distinct_nontrivial": ncls,
        "rule": "Date: every day of the listed years; DateTime: year x day x time x microsecond x zone lattice; Duration: every whole second of the range plus a magnitude lattice; colours: every (r,g,b) of the listed red ranges plus lattice and CSS names; Boolean and Unit lattices; rejection: every single-character deletion/substitution/insertion (alphabet '09-:TZP.HMSD +') of valid encodings must raise or return what an independent lenient ISO-8601 reading assigns; distinct_nontrivial = sum of distinct input classes per task",
        "tasks": [t[0] for t in tasks][:5] + ["..."],
        "samples": [{"codec": "Duration", "value": "-1 day, 23:59:01", "encoded": Duration.encode(timedelta(seconds=-59))}],
        "exhaustive": True,
    }
    assume = ["CPython datetime arithmetic trusted", "Date.decode is documented to return a datetime: date d must come back as datetime(d) (type change noted, not reported)",
              "'randomly inside' of the quantifier is sampling and is not done"]
    return report.conclude(prop, tier, vseed, failures, cov, assume, t0)


def replay(rp):
    site = rp["site"]
    v = rp["value"]
    out = None
    try:
        if site.endswith(".decode") or site in ("hex2rgb",):
            f = {"datetime.decode": DateTime.decode, "date.decode": Date.decode, "duration.decode": Duration.decode, "Boolean.decode": Boolean.decode, "hex2rgb": hex2rgb}[site]
            out = f(v)
        elif site == "Duration":
            out = (Duration.encode(timedelta(seconds=v)), Duration.decode(Duration.encode(timedelta(seconds=v))))
        else:
            print("replay by re-running the check task for", site)
    except Exception as e:
        out = f"raises:{type(e).__name__}"
    print(site, repr(v), "->", out, "| expected", rp["expected"])
    return 1 if str(out) != str(rp["expected"]) else 0
