"""C02, nested tables: a table (or row) reached *through* another table's or row's
wrappers answers from its own XML, not from the maps of the object it was reached through."""

from __future__ import annotations

import itertools

from odfdo import Element

from ..machines.rows import row_xml
from ..machines.tables import columns_xml
from ..models import tableread as TR

INNER = [
    {"rows": [{"enc": [[5, 1]], "rep": 2}], "cols": [1]},
    {"rows": [{"enc": [[5, 2], [6, 1]], "rep": 1}, {"enc": [[None, 3]], "rep": 3}], "cols": [3]},
    {"rows": [{"enc": [[7, 1], [None, 4]], "rep": 1}], "cols": [2, 3]},
]
OUTER_SHAPES = [([3], 1, 2), ([1, 1], 2, 0), ([2], 3, 1)]  # column runs, row repeat of the holder row, trailing empties


def inner_xml(spec, name="Inner"):
    rows = "".join(row_xml([tuple(p) for p in r["enc"]], r.get("rep", 1)) for r in spec["rows"])
    return f'<table:table table:name="{name}">{columns_xml(spec["cols"])}{rows}</table:table>'


def outer_xml(inner, cols, rowrep, trailing):
    rep = f' table:number-rows-repeated="{rowrep}"' if rowrep > 1 else ""
    tail = f'<table:table-cell table:number-columns-repeated="{trailing}"/>' if trailing > 1 else ("<table:table-cell/>" if trailing == 1 else "")
    return (f'<table:table table:name="Outer">{columns_xml(cols)}<table:table-row{rep}><table:table-cell>{inner}</table:table-cell>{tail}</table:table-row>'
            f"<table:table-row><table:table-cell/></table:table-row></table:table>")


def run():
    fails, n = [], 0
    for ispec, (cols, rowrep, trailing) in itertools.product(INNER, OUTER_SHAPES):
        xml = outer_xml(inner_xml(ispec), cols, rowrep, trailing)
        want_elem = TR.parse_fragment(inner_xml(ispec))
        want = (TR.table_width(want_elem), TR.table_height(want_elem), TR.padded(TR.table_matrix(want_elem), TR.table_width(want_elem)))
        want_rows = [sum(k for _, k in TR.row_runs(r)) for r in TR.table_rows(want_elem)]
        paths = {
            "outer.get_elements(descendant::table:table)": lambda t: t.get_elements("descendant::table:table")[0],
            "outer.get_element": lambda t: t.get_element("descendant::table:table"),
            "cell.get_elements": lambda t: t.get_cell((0, 0)).get_elements("table:table")[0],
            "row.get_elements": lambda t: t.get_row(0).get_elements("descendant::table:table")[0],
            "row(clone=False).get_elements": lambda t: t.get_row(0, clone=False).get_elements("descendant::table:table")[0],
            "outer.xpath": lambda t: [e for e in t.xpath("descendant::table:table")][0],
            "after-read:outer.get_elements": lambda t: (t.get_values(), t.get_elements("descendant::table:table")[0])[1],
        }
        for label, fn in paths.items():
            n += 1
            try:
                t = Element.from_tag(xml)
                inner = fn(t)
                got = (inner.width, inner.height, inner.get_values())
            except Exception as e:
                got = f"raises:{type(e).__name__}"
            if got != want:
                fails.append({"signature": f"site=nested-table via {label}; class=nested; symptom=answers-from-foreign-maps",
                              "replay": {"replay_module": "mc.checks.nested_c02", "history": [], "inner": ispec, "outer": [cols, rowrep, trailing], "path": label,
                                         "oracle": "nested-table-own-xml", "expected": want, "actual": got}})
        # nested rows reached through the holder row
        for label, fn in {"row.get_elements(descendant rows)": lambda t: t.get_row(0).get_elements("descendant::table:table-row"),
                          "outer.get_elements(inner rows)": lambda t: t.get_elements("descendant::table:table/table:table-row")}.items():
            n += 1
            try:
                t = Element.from_tag(xml)
                got = [r.width for r in fn(t)]
            except Exception as e:
                got = f"raises:{type(e).__name__}"
            if got != want_rows:
                fails.append({"signature": f"site=nested-rows via {label}; class=nested; symptom=answers-from-foreign-maps",
                              "replay": {"replay_module": "mc.checks.nested_c02", "history": [], "inner": ispec, "outer": [cols, rowrep, trailing], "path": label,
                                         "oracle": "nested-row-own-xml", "expected": want_rows, "actual": got}})
    return fails, n


def replay(rp):
    f, n = run()
    hits = [x for x in f if x["replay"]["path"] == rp["path"] and x["replay"]["inner"] == rp["inner"] and x["replay"]["outer"] == rp["outer"]]
    for h in hits[:3]:
        print("FAIL", h["signature"], h["replay"]["expected"], h["replay"]["actual"])
    return 1 if hits else 0
