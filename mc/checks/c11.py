"""C11: saving is neutral: pretty / packaging change layout only; save never edits memory."""

from __future__ import annotations

import copy
import io
import itertools
import multiprocessing as mp
import os
import shutil
import tempfile
import time
import zipfile
from pathlib import Path

from lxml import etree

from odfdo import Cell, Document, Element, Frame, List, ListItem, Paragraph, Row, Section, Table

from .. import report
from ..machines import paragraphs as PF
from ..machines.packages import NS, SAMPLES, c14n, read_folder, read_zip, strip_generator, tmpdir
from ..models import odfws

TEXTNS = NS["text"]
P, H = "{%s}p" % TEXTNS, "{%s}h" % TEXTNS
XMLPARTS = ("content.xml", "styles.xml", "meta.xml", "settings.xml")

EXTRA_ITEMS = {
    "note": '<text:note text:id="n1" text:note-class="footnote"><text:note-citation>1</text:note-citation><text:note-body><text:p>nb</text:p></text:note-body></text:note>',
    "annot": '<office:annotation office:name="an1"><dc:creator>me</dc:creator><text:p>ab</text:p></office:annotation>',
    "frame": '<draw:frame draw:name="f1" text:anchor-type="as-char" svg:width="1cm" svg:height="1cm"><draw:image xlink:href="Pictures/x.png" xlink:type="simple"/></draw:frame>',
    "tbox": '<draw:frame draw:name="f2" text:anchor-type="as-char" svg:width="1cm" svg:height="1cm"><draw:text-box><text:p>in<text:s/> box</text:p><text:p>two</text:p></draw:text-box></draw:frame>',
    "lead": " x",
    "trail": "y ",
}


def para_projection(p):
    """Collapsed readable text of one paragraph: character data of the paragraph and of its
    inline text:* children; frames, notes, annotations and anything not inline are opaque."""
    toks = []

    def walk(e):
        if e.text:
            toks.append(("chars", e.text))
        for ch in e:
            if not isinstance(ch.tag, str):
                pass
            elif ch.tag == odfws.S:
                try:
                    n = int(ch.get("{%s}c" % TEXTNS, "1"))
                except ValueError:
                    n = 1
                toks.append(("elem", " " * n))
            elif ch.tag == odfws.TAB:
                toks.append(("elem", "\t"))
            elif ch.tag == odfws.LB:
                toks.append(("elem", "\n"))
            elif ch.tag.startswith("{%s}" % TEXTNS) and ch.tag not in ("{%s}note" % TEXTNS, P, H):
                walk(ch)
            else:
                toks.append(("elem", "￼"))  # opaque object
            if ch.tail:
                toks.append(("chars", ch.tail))

    walk(p)
    out = []
    prev_ws = True
    for kind, t in toks:
        if kind == "elem":
            out.append(t)
            prev_ws = False
            continue
        for c in t:
            if c in " \t\r\n":
                if not prev_ws:
                    out.append(" ")
                    prev_ws = True
            else:
                out.append(c)
                prev_ws = False
    s = "".join(out)
    if s.endswith(" ") and prev_ws:
        s = s[:-1]
    return s


def _in_image(p):
    a = p.getparent()
    while a is not None:
        if a.tag == "{%s}image" % NS["draw"]:
            return True
        a = a.getparent()
    return False


def doc_view(root, skip_in_image=False):
    paras = [para_projection(p) for p in root.iter(P, H) if not (skip_in_image and _in_image(p))]
    skel = [(e.tag, tuple(sorted(e.attrib.items()))) for e in root.iter() if isinstance(e.tag, str)]
    return paras, skel


def adjacency_class(p):
    """Names of adjacent (kind, kind) pairs inside the paragraph (for signatures)."""
    kinds = []
    if p.text and p.text.strip():
        kinds.append("text")
    for ch in p:
        if isinstance(ch.tag, str):
            kinds.append(etree.QName(ch).localname)
        if ch.tail and ch.tail.strip():
            kinds.append("text")
    return "+".join(sorted(set(f"{a}>{b}" for a, b in zip(kinds, kinds[1:])))) or (kinds[0] if kinds else "empty")


# ---------------------------------------------------------------- documents
def gen_document(tier):
    doc = Document("text")
    body = doc.body
    body.clear()
    items = dict(PF.ITEMS)
    items.update(EXTRA_ITEMS)
    alpha2 = list(PF.FULL) + list(EXTRA_ITEMS)
    tuples = []
    plain = {"ab", "a b", "ba", "lead", "trail"}
    for n in (1, 2):
        for tup in itertools.product(alpha2, repeat=n):
            if any(a in plain and b in plain for a, b in zip(tup, tup[1:])):
                continue
            tuples.append(tup)
    small = ["ab", "s2", "tab", "span", "frame", "note", "tbox", "lb"]
    for tup in itertools.product(small, repeat=3):
        tuples.append(tup)
    count = 0
    for i, tup in enumerate(tuples):
        xml = "".join(items[k] for k in tup)
        for tag in ("text:p", "text:h"):
            e = Element.from_tag(f'<{tag}>{xml}</{tag}>')
            # only paragraphs already in white-space normal form have a well defined text
            if not odfws.is_normal_form(e._Element__element):
                continue
            body.append(e)
            count += 1
            if i % 7 == 0 and tag == "text:p":
                lst = List()
                li = ListItem()
                li.append(e.clone)
                lst.append(li)
                body.append(lst)
                sec = Section(name=f"s{i}")
                sec.append(e.clone)
                body.append(sec)
                t = Table(f"t{i}")
                r = Row()
                c = Cell()
                c.append(e.clone)
                r.append_cell(c, clone=False)
                t.append_row(r, clone=False)
                body.append(t)
    return doc, count


def gen_images_document():
    """Four frames over two pictures: the first picture is used by three frames."""
    doc = Document("text")
    body = doc.body
    body.clear()
    u1 = doc.add_file(str(SAMPLES / "image.png"))
    u2 = doc.add_file(str(SAMPLES / "image2.jpg"))
    for i, u in enumerate((u1, u2, u1, u1)):
        p = Paragraph(f"picture {i}")
        p.append(Frame.image_frame(u, name=f"fr{i}", size=("2cm", "2cm"), anchor_type="as-char"))
        body.append(p)
    return doc


def image_frames(root):
    """(frame name, number of draw:image children, each with a reference or embedded data)."""
    out = []
    for fr in root.iter("{%s}frame" % NS["draw"]):
        imgs = [c for c in fr if c.tag == "{%s}image" % NS["draw"]]
        ok = all(im.get("{%s}href" % NS["xlink"]) or any(isinstance(k.tag, str) and k.tag.endswith("}binary-data") for k in im) for im in imgs)
        out.append((fr.get("{%s}name" % NS["draw"]), len(imgs), ok))
    return out


def open_seed(seed):
    kind, name = seed
    if kind == "generated-images":
        return gen_images_document()
    if kind == "generated":
        return gen_document(name)[0]
    if kind == "template":
        return Document(name)
    return Document(str(SAMPLES / name))


def save_variant(doc, packaging, pretty, base):
    """Save and return {part name: root element} of the XML parts written."""
    if packaging == "zip":
        buf = io.BytesIO()
        doc.save(buf, pretty=pretty)
        entries = read_zip(io.BytesIO(buf.getvalue()))
    elif packaging == "folder":
        target = os.path.join(base, "out")
        if os.path.isdir(target + ".folder"):
            shutil.rmtree(target + ".folder")
        doc.save(target, packaging="folder", pretty=pretty)
        entries = read_folder(target + ".folder")
    else:
        buf = io.BytesIO()
        doc.save(buf, packaging="xml", pretty=pretty)
        return {"flat": etree.fromstring(buf.getvalue())}
    out = {}
    for n, d, _ in entries:
        if n in XMLPARTS or n == "META-INF/manifest.xml":
            out[n] = etree.fromstring(d)
    return out


def mem_snapshot(doc):
    snap = {}
    for name in ("content", "styles", "meta", "settings", "manifest"):
        part = doc.get_part(name)
        r = copy.deepcopy(part.root._Element__element)
        strip_generator(r)
        snap[name] = etree.tostring(r)
    return snap


SAVE_KINDS = (("zip", False), ("zip", True), ("folder", False), ("folder", None), ("xml", False), ("xml", True))
PREPARATIONS = ("untouched", "body-read", "parts-serialized", "meta-edited-back", "file-added")
DEEP_SEEDS = {("generated", "quick"), ("generated", "thorough"), ("file", "example.odt"), ("template", "text"), ("file", "simple_table.ods"), ("file", "frame_image.odp")}


def prepare(doc, how):
    """What the user did before saving, leaving the content as it is."""
    if how == "body-read":
        doc.body.get_paragraphs()
    elif how == "parts-serialized":
        for name in ("content", "styles", "settings", "meta"):
            doc.get_part(name).serialize()
    elif how == "meta-edited-back":
        t = doc.meta.title
        doc.meta.title = "x"
        doc.meta.title = t
    elif how == "file-added":
        # the manifest (and the set of parts) changed in memory since the document was opened
        doc.add_file(str(SAMPLES / "image.png"))


def manifest_entries(root):
    ns = "{%s}" % NS["manifest"]
    return {(e.get(ns + "full-path"), e.get(ns + "media-type")) for e in root.iter(ns + "file-entry")}


def work(seed):
    fails = []
    nev = 0
    classes = set()
    base = tmpdir()

    def fail(site, cls, oracle, exp, act, symptom, **kw):
        fails.append({"signature": f"site={site}; class={cls}; symptom={symptom}",
                      "replay": {"replay_module": "mc.checks.c11", "seed": list(seed), "history": [], **kw, "oracle": oracle, "expected": exp, "actual": act}})

    try:
        ref = save_variant(open_seed(seed), "zip", False, base)
    except Exception as e:
        fail("Document.save(zip,plain)", "reference", "raises", "no exception", f"{type(e).__name__}: {e}"[:200], f"raises:{type(e).__name__}")
        return nev, fails, classes
    ref_views = {n: doc_view(r) for n, r in ref.items()}
    for packaging, pretty in (("zip", True), ("folder", False), ("folder", True), ("xml", False), ("xml", True)):
        site = f"Document.save({packaging},pretty={pretty})"
        doc = open_seed(seed)
        before = mem_snapshot(doc)
        nev += 1
        try:
            got = save_variant(doc, packaging, pretty, base)
        except Exception as e:
            fail(site, "save", "raises", "no exception", f"{type(e).__name__}: {e}"[:200], f"raises:{type(e).__name__}")
            continue
        after = mem_snapshot(doc)
        changed = sorted(k for k in before if before[k] != after[k])
        if changed:
            fail(site, "in-memory", "memory-unchanged", "unchanged parts", changed, "save-modified-memory")
        if packaging != "xml":
            for n in ("content.xml", "styles.xml"):
                if n not in got or n not in ref:
                    continue
                rp, rs = ref_views[n]
                gp, gs = doc_view(got[n])
                if gs != rs:
                    fail(site, n, "skeleton-and-attributes", f"{len(rs)} elements", f"{len(gs)} elements", "structure-or-attributes-differ", part=n)
                    continue
                if gp != rp:
                    # which paragraphs differ: classify by adjacency
                    refp = list(ref[n].iter(P, H))
                    seen = set()
                    for i, (a, b) in enumerate(zip(rp, gp)):
                        if a != b:
                            cls = adjacency_class(refp[i])
                            if cls in seen:
                                continue
                            seen.add(cls)
                            classes.add(cls)
                            fail(site, cls, "paragraph-text", a, b, "readable-text-differs", part=n, paragraph_index=i)
        else:
            # pictures: every frame keeps its image (embedded or referenced) in the flat export
            want_fr = [f for part in ("styles.xml", "content.xml") if part in ref for f in image_frames(ref[part]) if f[1]]
            got_fr = [f for f in image_frames(got["flat"]) if f[1]]
            if [(n, k) for n, k, _ in got_fr] != [(n, k) for n, k, _ in want_fr] or not all(ok for _, _, ok in got_fr):
                fail(site, "flat", "frames-and-images", want_fr[:8], got_fr[:8], "picture-frames-differ")
            # (the flat export rebuilds draw:image elements: paragraphs inside them are not compared)
            rp = (doc_view(ref["styles.xml"], True)[0] if "styles.xml" in ref else []) + doc_view(ref["content.xml"], True)[0]
            gp = doc_view(got["flat"], True)[0]
            if gp != rp:
                n_bad = sum(1 for a, b in zip(rp, gp) if a != b) + abs(len(rp) - len(gp))
                refp = [p for p in list(ref.get("styles.xml", etree.Element("x")).iter(P, H)) + list(ref["content.xml"].iter(P, H)) if not _in_image(p)]
                seen = set()
                if len(rp) != len(gp):
                    fail(site, "flat", "paragraph-count", len(rp), len(gp), "paragraphs-lost-or-added")
                for i, (a, b) in enumerate(zip(rp, gp)):
                    if a != b:
                        cls = adjacency_class(refp[i])
                        if cls not in seen:
                            seen.add(cls)
                            fail(site, cls, "paragraph-text", a, b, "readable-text-differs", paragraph_index=i)
    # save sequences: the last plain zip must equal the direct plain zip
    for seq in ((("zip", True), ("zip", False)), (("zip", False), ("zip", True), ("zip", False)), (("folder", None), ("zip", False)), (("xml", True), ("zip", False)), (("zip", False), ("zip", False))):
        doc = open_seed(seed)
        nev += 1
        try:
            for packaging, pretty in seq[:-1]:
                if pretty is None:
                    target = os.path.join(base, "seq")
                    if os.path.isdir(target + ".folder"):
                        shutil.rmtree(target + ".folder")
                    doc.save(target, packaging="folder")
                else:
                    save_variant(doc, packaging, pretty, base)
            last = save_variant(doc, "zip", False, base)
        except Exception as e:
            fail(f"save-sequence{[f'{p}:{q}' for p, q in seq]}", "sequence", "raises", "no exception", type(e).__name__, f"raises:{type(e).__name__}")
            continue
        for n in XMLPARTS:
            if n in ref and n in last:
                a, b = copy.deepcopy(ref[n]), copy.deepcopy(last[n])
                strip_generator(a)
                strip_generator(b)
                if c14n(a) != c14n(b):
                    fail(f"save-sequence{[f'{p}:{q}' for p, q in seq]}", "sequence", "same-content-as-direct-plain-save", n, "differs", "earlier-save-changed-later-save", part=n)
    if tuple(seed) in DEEP_SEEDS:
        # every sequence of one or two saves (any packaging, pretty or not) after every preparation:
        # the plain zip written last equals the plain zip of the document saved directly
        import itertools

        for how in PREPARATIONS:
            try:
                d0 = open_seed(seed)
                prepare(d0, how)
                ref2 = save_variant(d0, "zip", False, base)
            except Exception as e:
                fail(f"prepared[{how}]", "sequence", "raises", "no exception", type(e).__name__, f"raises:{type(e).__name__}")
                continue
            for n_pre in ((1,) if tuple(seed) == ("generated", "quick") else (1, 2)):
                for seq in itertools.product(SAVE_KINDS, repeat=n_pre):
                    if how == "untouched" and n_pre == 1 and seq[0] == ("zip", False):
                        continue
                    nev += 1
                    label = f"save-sequence[{how}]" + str([f"{p}:{q}" for p, q in seq] + ["zip:False"])
                    try:
                        doc = open_seed(seed)
                        prepare(doc, how)
                        for packaging, pretty in seq:
                            if pretty is None:
                                target = os.path.join(base, "seq")
                                doc.save(target, packaging="folder")
                                inter = {n: etree.fromstring(d) for n, d, _ in read_folder(target + ".folder") if n in XMLPARTS or n == "META-INF/manifest.xml"}
                            else:
                                inter = save_variant(doc, packaging, pretty, base)
                            # what the package declares does not depend on packaging or layout
                            mn = "META-INF/manifest.xml"
                            if mn in inter and mn in ref2 and manifest_entries(inter[mn]) != manifest_entries(ref2[mn]):
                                fail(label, "sequence", "manifest-of-this-save", sorted(manifest_entries(ref2[mn]))[-3:], sorted(manifest_entries(inter[mn]))[-3:], "manifest-differs-from-plain-save", step=f"{packaging}:{pretty}")
                                break
                        last = save_variant(doc, "zip", False, base)
                    except Exception as e:
                        fail(label, "sequence", "raises", "no exception", type(e).__name__, f"raises:{type(e).__name__}")
                        continue
                    for n in XMLPARTS:
                        if n in ref2 and n in last:
                            a, b = copy.deepcopy(ref2[n]), copy.deepcopy(last[n])
                            strip_generator(a)
                            strip_generator(b)
                            if c14n(a) != c14n(b):
                                fail(label, "sequence", "same-content-as-direct-plain-save", n, "differs", "earlier-save-changed-later-save", part=n)
                                break
    return nev, fails, classes


def run(prop, tier, vseed):
    t0 = time.time()
    base = tempfile.mkdtemp(prefix="odfdo_verif_", dir="/dev/shm" if os.path.isdir("/dev/shm") else None)
    os.environ["MC_TMP"] = base
    try:
        seeds = [("generated", tier), ("generated-images", None)] + [("template", t) for t in ("text", "spreadsheet", "presentation", "drawing")]
        files = sorted(p.name for p in SAMPLES.iterdir() if p.suffix in (".odt", ".ods", ".odp", ".odg"))
        if tier == "quick":
            files = [f for f in files if f != "big.ods"]
        seeds += [("file", f) for f in files]
        nproc = int(os.environ.get("VERIF_NPROC", "0")) or min(16, os.cpu_count() or 1)
        nev = 0
        failures = []
        classes = set()
        with mp.get_context("fork").Pool(nproc) as pool:
            for a, f, c in pool.imap_unordered(work, seeds, chunksize=1):
                nev += a
                failures.extend(f)
                classes |= c
        gd, count = gen_document(tier)
        adj = set()
        for p in gd.body._Element__element.iter(P, H):
            adj.add(adjacency_class(p))
        cov = {
            "states": len(seeds),
            "transitions": nev,
            "traces_validated_against_impl": len(seeds),
            "evaluations": nev,
            "distinct_nontrivial": len(adj),
            "generated_paragraphs": count,
            "rule": "every seed document (generated adjacency document, 4 templates, every sample) x {zip pretty, folder plain, folder pretty, flat xml plain, flat xml pretty} compared with the plain zip save of the same state (per-paragraph collapsed text, element skeleton, attributes), in-memory parts before/after each save, 5 save sequences of length <= 3 ending in a plain zip on every seed, and on 5 seeds every sequence of one or two saves over {zip, folder, flat xml} x {plain, pretty / default} after each of 4 preparations (untouched, body read, parts serialised without .root, metadata edited and restored) followed by a plain zip; distinct_nontrivial = distinct adjacency classes of the generated paragraphs",
            "samples": [{"seed": ["generated", tier], "configuration": ["zip", True]}],
            "exhaustive": True,
        }
        assume = ["zipfile, lxml trusted", "readable text = ODF 6.1.2 collapsed text of each text:p / text:h with frames, notes and annotations opaque",
                  "meta:generator excluded; flat XML compared on paragraph texts only (images are embedded by design)"]
        return report.conclude(prop, tier, vseed, failures, cov, assume, t0)
    finally:
        shutil.rmtree(base, ignore_errors=True)


def replay(rp):
    base = tempfile.mkdtemp(prefix="odfdo_verif_", dir="/dev/shm" if os.path.isdir("/dev/shm") else None)
    os.environ["MC_TMP"] = base
    try:
        n, f, _ = work(tuple(rp["seed"]))
        hits = [x for x in f if x["replay"]["oracle"] == rp["oracle"]]
        for h in hits[:5]:
            print("FAIL", h["signature"], repr(h["replay"]["expected"])[:200], repr(h["replay"]["actual"])[:200])
        return 1 if hits else 0
    finally:
        shutil.rmtree(base, ignore_errors=True)
