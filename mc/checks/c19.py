"""C19: all ways of addressing cells agree; written addresses parse back."""

from __future__ import annotations

import itertools
import multiprocessing as mp
import os
import time

from odfdo import Cell, Document, Element, Table
from odfdo.table import NamedRange
from odfdo.utils import alpha_to_digit, digit_to_alpha

from .. import report
from ..machines.tables import TableMachine
from ..models import tableread as TR
from ..models.grid import GridModel
from .names_c07 import table_rule

TM = None


def my_alpha(n):
    s = ""
    n += 1
    while n:
        s = chr(65 + (n - 1) % 26) + s
        n = (n - 1) // 26
    return s


def check_letters(limit):
    fails = []
    prev = None
    n_eval = 0
    for n in range(limit + 1):
        n_eval += 1
        a = digit_to_alpha(n)
        bad = None
        if a != my_alpha(n):
            bad = ("digit_to_alpha", my_alpha(n), a)
        elif alpha_to_digit(a) != n:
            bad = ("alpha_to_digit(digit_to_alpha(n))", n, alpha_to_digit(a))
        elif alpha_to_digit(a.lower()) != n:
            bad = ("case-insensitive", n, alpha_to_digit(a.lower()))
        elif prev is not None and not ((len(prev), prev) < (len(a), a)):
            bad = ("strictly-increasing", f">{prev}", a)
        if bad:
            cls = "n<26" if n < 26 else ("n<702" if n < 702 else ("n<=16383" if n <= 16383 else "n>16383"))
            fails.append({"signature": f"site=coordinates.{bad[0]}; class={cls}; symptom=wrong-letter-number-mapping",
                          "replay": {"replay_module": "mc.checks.c19", "part": "letters", "n": n, "history": [], "oracle": bad[0], "expected": bad[1], "actual": bad[2]}})
        prev = a
    return fails, n_eval


# ------------------------------------------------------------------ forms
def cell_forms(x, y, W, H):
    f = [("tuple", (x, y)), ("list", [x, y]), ("str", f"{my_alpha(x)}{y + 1}"), ("str-lower", f"{my_alpha(x).lower()}{y + 1}")]
    if x < W and y < H:
        f.append(("neg", (x - W, y - H)))
        if x < W:
            f.append(("neg-x", (x - W, y)))
        if y < H:
            f.append(("neg-y", (x, y - H)))
    return f


def area_forms(x, y, z, t, W, H):
    f = [("tuple", (x, y, z, t)), ("list", [x, y, z, t]), ("str", f"{my_alpha(x)}{y + 1}:{my_alpha(z)}{t + 1}"),
         ("str-spaces", f" {my_alpha(x)}{y + 1} : {my_alpha(z)}{t + 1} ")]
    if z < W and t < H:
        f.append(("neg-end", (x, y, z - W, t - H)))
    if x < W and y < H and z < W and t < H:
        f.append(("neg-all", (x - W, y - H, z - W, t - H)))
    return f


def vals(cells):
    return [[c.get_value() for c in row] for row in cells]


def work(task):
    sidx, hist = task
    tm = TM
    seed = tm.seed_list[sidx]
    fails = []
    nev = 0
    forms_seen = set()

    def build():
        st = tm.new(seed)
        for op in hist:
            tm.step(st, op)
        return st

    st = build()
    m = st.model
    W, H = m.width, m.height
    t = st.table
    from ..models import tableread as TR

    colstyles = TR.column_styles(t._Element__element)
    colstyles += [None] * (W - len(colstyles))

    def fail(method, form, exp, act, symptom, cls=""):
        fails.append({"signature": f"site=Table.{method}; class=form={form}{cls}; symptom={symptom}",
                      "replay": {"replay_module": "mc.checks.c19", "part": "forms", "seed": seed, "history": [list(o) for o in hist],
                                 "method": method, "form": form, "oracle": "forms-agree", "expected": exp, "actual": act}})

    def call(f):
        try:
            return ("ok", f())
        except Exception as e:
            return ("raises", type(e).__name__)

    # ---- single cells
    for y in range(H + 1):
        for x in range(W + 1):
            ref_v = m.value(x, y)
            for form, coord in cell_forms(x, y, W, H):
                forms_seen.add(("cell", form))
                for method, fn in (
                    ("get_value", lambda: t.get_value(coord)),
                    ("get_cell", lambda: t.get_cell(coord).get_value()),
                    ("get_cell.xy", lambda: (lambda c: (c.x, c.y))(t.get_cell(coord))),
                ):
                    nev += 1
                    r = call(fn)
                    exp = ("ok", (x, y) if method == "get_cell.xy" else ref_v)
                    if r != exp:
                        fail(method, form, exp, r, "form-disagrees")
            # mutating methods on fresh copies: set_value / delete_cell / insert_cell
            for method in ("set_value", "delete_cell", "insert_cell"):
                ref = None
                for form, coord in cell_forms(x, y, W, H):
                    s2 = build()
                    nev += 1
                    try:
                        if method == "set_value":
                            s2.table.set_value(coord, 77)
                        elif method == "delete_cell":
                            s2.table.delete_cell(coord)
                        else:
                            s2.table.insert_cell(coord, Cell(77))
                        r = ("ok", s2.table.get_values(), tuple(s2.table.size))
                    except Exception as e:
                        r = ("raises", type(e).__name__)
                    if ref is None:
                        ref = r
                        m2 = m.copy()
                        if method == "set_value":
                            m2.set_cell(x, y, 77, 1)
                        elif method == "delete_cell":
                            m2.delete_cell(x, y)
                        else:
                            m2.insert_cell(x, y, 77, 1)
                        expm = ("ok", m2.matrix(), (m2.width, m2.height))
                        if r != expm:
                            fail(method, form, expm, r, "differs-from-grid")
                    elif r != ref:
                        fail(method, form, ref, r, "form-disagrees")
    # ---- rows / columns by index forms
    for y in range(H):
        for form, arg in (("int", y), ("str", str(y + 1)), ("neg", y - H)):
            nev += 1
            r = call(lambda: (lambda rr: (rr.y, rr.get_values()))(t.get_row(arg)))
            exp = ("ok", (y, list(m.rows[y])))
            if r != exp:
                fail("get_row", form, exp, r, "form-disagrees")
            r = call(lambda: t.get_row_values(arg))
            if r != ("ok", m.row_values(y)):
                fail("get_row_values", form, ("ok", m.row_values(y)), r, "form-disagrees")
    for x in range(W):
        for form, arg in (("int", x), ("str", my_alpha(x)), ("str-lower", my_alpha(x).lower()), ("neg", x - W)):
            nev += 1
            r = call(lambda: (lambda cc: (cc.x, cc.style))(t.get_column(arg)))
            if r != ("ok", (x, colstyles[x])):
                fail("get_column", form, ("ok", (x, colstyles[x])), r, "form-disagrees")
            r = call(lambda: t.get_column_values(arg))
            if r != ("ok", m.column_values(x)):
                fail("get_column_values", form, ("ok", m.column_values(x)), r, "form-disagrees")
    # ---- areas
    areas = [(x, y, z, tt) for x in range(W) for z in range(x, W) for y in range(H) for tt in range(y, H)]
    if len(areas) > 60:
        areas = [a for a in areas if a[0] in (0, 1, W - 1) and a[1] in (0, 1, H - 1) and a[2] in (a[0], W - 2, W - 1) and a[3] in (a[1], H - 2, H - 1)]
    for (x, y, z, tt) in areas:
        exp_vals = m.area(x, y, z, tt)
        inner = "inner" if (z < W - 1 or tt < H - 1) else "to-end"
        for form, coord in area_forms(x, y, z, tt, W, H):
            forms_seen.add(("area", form))
            nev += 5
            r = call(lambda: t.get_values(coord))
            if r != ("ok", exp_vals):
                fail("get_values", form, ("ok", exp_vals), r, "form-disagrees", f",{inner}")
            r = call(lambda: vals(t.get_cells(coord)))
            # get_cells does not pad short rows
            exp_cells = [m.rows[yy][x : z + 1] for yy in range(y, tt + 1)]
            if r != ("ok", exp_cells):
                fail("get_cells", form, ("ok", exp_cells), r, "form-disagrees", f",{inner}")
            r = call(lambda: [rr.y for rr in t.get_rows(coord)])
            if r != ("ok", list(range(y, tt + 1))):
                fail("get_rows", form, ("ok", list(range(y, tt + 1))), r, "not-bounded-by-range", f",{inner}")
            r = call(lambda: [(cc.x, cc.style) for cc in t.get_columns(coord)])
            expc = ("ok", [(i, colstyles[i]) for i in range(x, z + 1)])
            if r != expc:
                fail("get_columns", form, expc, r, "not-bounded-by-range" if r[0] == "ok" and [a for a, _ in r[1]] != [a for a, _ in expc[1]] else "not-the-columns-of-the-range", f",{inner}")
            # set_values(coord=area): upper-left corner is used
            s2 = build()
            try:
                s2.table.set_values([[55, 56], [], [57]], coord=coord)
                r = ("ok", s2.table.get_values())
            except Exception as e:
                r = ("raises", type(e).__name__)
            m2 = m.copy()
            m2.set_block(x, y, [[(55, 1), (56, 1)], [], [(57, 1)]])
            if r != ("ok", m2.matrix()):
                fail("set_values", form, ("ok", m2.matrix()), r, "form-disagrees", f",{inner}")
    # ---- partial forms
    for x in range(W):
        for z in range(x, W):
            s = f"{my_alpha(x)}:{my_alpha(z)}"
            nev += 2
            inner = "inner" if z < W - 1 else "to-end"
            expc = ("ok", [(i, colstyles[i]) for i in range(x, z + 1)])
            r = call(lambda: [(cc.x, cc.style) for cc in t.get_columns(s)])
            if r != expc:
                fail("get_columns", "str-partial", expc, r, "not-the-columns-of-the-range", f",{inner}")
            r = call(lambda: [(cc.x, cc.style) for cc in t.get_columns((x, z))])
            if r != expc:
                fail("get_columns", "pair", expc, r, "not-the-columns-of-the-range", f",{inner}")
            r = call(lambda: [(cc.x, cc.style) for cc in t.get_columns((x - W, z - W))])
            if r != expc:
                fail("get_columns", "pair-negative", expc, r, "not-the-columns-of-the-range", f",{inner}")
            for y in range(H):
                r = call(lambda: t.get_row(y).get_values(s))
                exp = ("ok", m.rows[y][x : z + 1])
                if r != exp:
                    fail("Row.get_values", "str-partial", exp, r, "form-disagrees")
                r2 = call(lambda: t.get_row(y).get_values((x, z)))
                if r2 != exp:
                    fail("Row.get_values", "pair", exp, r2, "form-disagrees")
                r3 = call(lambda: [c.get_value() for c in t.get_row(y).get_cells(s)])
                if r3 != exp:
                    fail("Row.get_cells", "str-partial", exp, r3, "form-disagrees")
    for y in range(H):
        for tt in range(y, H):
            s = f"{y + 1}:{tt + 1}"
            nev += 2
            inner = "inner" if tt < H - 1 else "to-end"
            r = call(lambda: [rr.y for rr in t.get_rows(s)])
            if r != ("ok", list(range(y, tt + 1))):
                fail("get_rows", "str-partial", ("ok", list(range(y, tt + 1))), r, "not-bounded-by-range", f",{inner}")
            r = call(lambda: [rr.y for rr in t.get_rows((y, tt))])
            if r != ("ok", list(range(y, tt + 1))):
                fail("get_rows", "pair", ("ok", list(range(y, tt + 1))), r, "not-bounded-by-range", f",{inner}")
            r = call(lambda: t.get_values(s))
            exp = ("ok", [m.row_values(yy) for yy in range(y, tt + 1)])
            if r != exp:
                fail("get_values", "str-partial", exp, r, "form-disagrees", f",{inner}")
    return (nev, fails, len(forms_seen))


# ------------------------------------------------------------------ named ranges
NAME_ALPHA = ["a", " ", ".", "'", "é", "1", "B"]


def named_ranges(maxlen):
    fails, nev = [], 0
    shapes = set()
    for L in range(1, maxlen + 1):
        for tup in itertools.product(NAME_ALPHA, repeat=L):
            raw = "".join(tup)
            name = table_rule(raw)
            if name is None or name != raw:
                continue
            cls = ("dot" if "." in name else "") + ("space" if " " in name else "") + ("apostrophe" if "'" in name else "") or "plain"
            for crange, exp_range in (("A1", (0, 0, 0, 0)), ("B2:C3", (1, 1, 2, 2)), ((3, 4, 30, 40), (3, 4, 30, 40))):
                nev += 1
                shapes.add((cls, str(crange)))
                try:
                    nr = NamedRange("my_range", crange, name)
                    back = Element.from_tag(nr.serialize())
                    got = (back.table_name, tuple(back.crange) if back.crange else None, back.start, back.end)
                except Exception as e:
                    got = f"raises:{type(e).__name__}"
                exp = (name, exp_range, exp_range[:2], exp_range[2:])
                if got != exp:
                    fails.append({"signature": f"site=NamedRange; class=table-name:{cls}; symptom=address-does-not-parse-back",
                                  "replay": {"replay_module": "mc.checks.c19", "part": "named_range", "name": name, "crange": crange, "history": [],
                                             "oracle": "roundtrip", "expected": exp, "actual": got}})
            # rename: exactly the ranges pointing to the old name follow; decoy tables whose
            # names contain / are contained in the renamed one must keep their ranges
            nev += 1
            try:
                doc = Document("spreadsheet")
                body = doc.body
                body.clear()
                decoys = []
                for cand in (name[:-1], name[1:], name + "x", "x" + name):
                    if table_rule(cand) == cand and cand != name and cand not in decoys and cand != "Other":
                        decoys.append(cand)
                body.append(Table(name, width=2, height=2))
                body.append(Table("Other", width=2, height=2))
                for dn in decoys:
                    body.append(Table(dn, width=2, height=2))
                t1 = body.get_table(0)
                t2 = body.get_table(1)
                t1.set_named_range("r_one", "A1:B2")
                t2.set_named_range("r_two", "A1")
                exp = []
                for i, dn in enumerate(decoys):
                    body.get_table(2 + i).set_named_range(f"r_decoy_{i}", "B2")
                    exp.append((f"r_decoy_{i}", dn, (1, 1, 1, 1)))
                new = "New" + name
                t1.name = new
                got = sorted((n.name, n.table_name, n.crange) for n in body.get_named_ranges())
                exp = sorted(exp + [("r_one", new, (0, 0, 1, 1)), ("r_two", "Other", (0, 0, 0, 0))])
                if got != exp:
                    raise AssertionError((exp, got))
            except AssertionError as e:
                fails.append({"signature": f"site=Table.name-setter; class=table-name:{cls}; symptom=named-range-not-following-rename",
                              "replay": {"replay_module": "mc.checks.c19", "part": "rename", "name": name, "history": [],
                                         "oracle": "rename", "expected": str(e.args[0][0]), "actual": str(e.args[0][1])}})
            except Exception as e:
                fails.append({"signature": f"site=Table.name-setter; class=table-name:{cls}; symptom=raises:{type(e).__name__}",
                              "replay": {"replay_module": "mc.checks.c19", "part": "rename", "name": name, "history": [],
                                         "oracle": "rename", "expected": "no exception", "actual": type(e).__name__}})
    return fails, nev, len(shapes)


def states(tm, tier):
    out = [(i, ()) for i in tm.select_seeds("rep" if tier == "quick" else "xmlctor")]
    return out


def run(prop, tier, vseed):
    global TM
    t0 = time.time()
    TM = tm = TableMachine()
    # an extra 5x4 seed with every cell distinct
    rows = [{"enc": [[10 * y + x, 1] for x in range(5)], "rep": 1} for y in range(4)]
    tm.seed_list.append({"kind": "xml", "rows": rows, "cols": [2, 3]})
    tasks = states(tm, tier) + [(len(tm.seed_list) - 1, ())]
    failures, nev = check_letters(20000 if tier == "quick" else 300000)
    nproc = int(os.environ.get("VERIF_NPROC", "0")) or min(16, os.cpu_count() or 1)
    nforms = 0
    with mp.get_context("fork").Pool(nproc) as pool:
        for a, fails, nf in pool.imap(work, tasks, chunksize=1):
            nev += a
            failures.extend(fails)
            if len(failures) > 20000:
                failures = report.compact(failures)
            nforms = max(nforms, nf)
    f2, n2, shapes = named_ranges(3 if tier == "quick" else 4)
    failures.extend(f2)
    nev += n2
    cov = {
        "states": len(tasks),
        "transitions": nev,
        "traces_validated_against_impl": len(tasks),
        "evaluations": nev,
        "distinct_nontrivial": nforms + shapes,
        "rule": "column numbers 0..N both ways; for every table seed every cell x every coordinate form x every coordinate-taking method, every area x form x method, partial forms; named ranges for every accepted table name up to the length bound x 3 areas + rename; distinct_nontrivial = distinct (kind, form) pairs + distinct (name class, area) pairs",
        "samples": [{"seed": tm.seed_list[tasks[0][0]], "method": "get_columns", "forms": ["(1,0,1,2)", "'B1:B3'", "'B:B'"]}],
        "exhaustive": True,
        "letters_upto": 20000 if tier == "quick" else 300000,
    }
    assume = ["lxml, CPython trusted", "'random large' numbers of the quantifier are not sampled"]
    return report.conclude(prop, tier, vseed, failures, cov, assume, t0)


def replay(rp):
    global TM
    part = rp.get("part")
    if part == "letters":
        f, _ = check_letters(rp["n"])
        return 1 if f else 0
    if part in ("named_range", "rename"):
        f, _, _ = named_ranges(len(rp["name"]))
        hits = [x for x in f if x["replay"].get("name") == rp["name"] and x["replay"]["part"] == part]
        for h in hits[:3]:
            print("FAIL", h["signature"], h["replay"]["expected"], h["replay"]["actual"])
        return 1 if hits else 0
    TM = tm = TableMachine()
    if rp["seed"] not in tm.seed_list:
        tm.seed_list.append(rp["seed"])
    from ..replay import tup

    r = work((tm.seed_list.index(rp["seed"]), tuple(tup(o) for o in rp["history"])))
    hits = [f for f in r[1] if f["replay"]["method"] == rp["method"] and f["replay"]["form"] == rp["form"]]
    for h in hits[:3]:
        print("FAIL", h["signature"], h["replay"]["expected"], h["replay"]["actual"])
    return 1 if hits else 0
