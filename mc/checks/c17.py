"""C17: whole-table transformations preserve what they should (laws, BFS over compositions)."""

from __future__ import annotations

import time

from ..machines.transforms import TransformMachine
from .common import run_plan

RULE = ("BFS over compositions of {transpose, transpose(area), rstrip, rstrip(aggressive), optimize_width, set_span, del_span, csv round trip} "
        "from every run-length encoding of the seed grid plus ragged / styled / spanned / repeated-last-row seeds; after each step the law of the "
        "operation is checked on an independent lxml reading of the XML before/after (and involution / idempotence / inverse by applying the second call); "
        "non-trivial = the pre-state had repeated rows/cells, ragged rows, styled empties or spans")
ASSUME = ["lxml, CPython trusted", "transpose compares value matrices after dropping trailing all-empty rows/columns",
          "csv round trip compares values with '' == empty and strings stripped, as to_csv documents"]


def run(prop, tier, vseed):
    t0 = time.time()
    m = TransformMachine()
    if tier == "quick":
        plan = [(m, [{"alphabet": "full", "depth": 2, "seeds": "all"}, {"alphabet": "sub", "depth": 3, "seeds": "rep"}])]
    else:
        plan = [(m, [{"alphabet": "full", "depth": 3, "seeds": "all"}, {"alphabet": "sub", "depth": 4, "seeds": "rep"}])]
    return run_plan(prop, tier, vseed, plan, RULE, ASSUME, t0=t0)
