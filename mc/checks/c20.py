"""C20: a filled table of contents lists exactly the headings, in order, numbered right."""

from __future__ import annotations

import contextlib
import io
import re
import itertools
import multiprocessing as mp
import os
import time

from lxml import etree

from odfdo import Document, Element, Header, Paragraph
from odfdo.scripts.headers import headers_document
from odfdo.toc import TOC

from .. import report
from ..models import odfws

TEXTNS = odfws.TEXT
HTEXTS = {
    "plain": "Title",
    "ws": "a  b\tc",
    "span": '<text:h text:outline-level="{lvl}">x<text:span text:style-name="T1">y z</text:span>w</text:h>',
    "note": '<text:h text:outline-level="{lvl}">Tn<text:note text:id="n1" text:note-class="footnote"><text:note-citation>1</text:note-citation><text:note-body><text:p>body</text:p></text:note-body></text:note>end</text:h>',
    "lb": "a\nb",
    # the note anchored inside a span / the annotation inside a link of the heading
    "note-in-span": '<text:h text:outline-level="{lvl}">St<text:span text:style-name="T1">yl<text:note text:id="n2" text:note-class="footnote"><text:note-citation>2</text:note-citation><text:note-body><text:p>body</text:p></text:note-body></text:note>ed</text:span> end</text:h>',
    "annotation-in-link": '<text:h text:outline-level="{lvl}">La<text:a xlink:href="http://x/" xlink:type="simple">st<office:annotation><dc:creator>me</dc:creator><text:p>remark</text:p></office:annotation>x</text:a> end</text:h>',
}


def make_header(level, kind, idx):
    if kind in ("span", "note", "note-in-span", "annotation-in-link"):
        return Element.from_tag(HTEXTS[kind].format(lvl=level))
    return Header(level, f"{HTEXTS[kind]}{idx}")


def outline_model(levels):
    """Counter model. Returns list of number strings, or None entries where the
    sequence skips a level (no convention is assumed there)."""
    counters = {}
    out = []
    skipped_seen = False
    for lv in levels:
        # a level is 'skipped' when some shallower level has no counter yet
        if any(k not in counters for k in range(1, lv)):
            skipped_seen = True
        for k in range(1, lv):
            counters.setdefault(k, 1)
        counters[lv] = counters.get(lv, 0) + 1
        for k in [k for k in counters if k > lv]:
            del counters[k]
        out.append(None if skipped_seen else ".".join(str(counters[k]) for k in range(1, lv + 1)) + ".")
    return out


def place(header, where, i):
    """The heading directly in the body, or inside a section / list item / table cell / nested section."""
    if where == "body" or i % 2 == 0 and where != "all":
        return header
    if where in ("section", "all") and i % 4 == 1 or where == "section":
        sec = Element.from_tag(f'<text:section text:name="S{i}"/>')
        sec.append(header)
        return sec
    if where == "list" or where == "all" and i % 4 == 3:
        lst = Element.from_tag("<text:list><text:list-item/></text:list>")
        lst.children[0].append(header)
        return lst
    if where == "cell":
        t = Element.from_tag(f'<table:table table:name="T{i}"><table:table-column/><table:table-row><table:table-cell/></table:table-row></table:table>')
        t.get_element("descendant::table:table-cell").append(header)
        return t
    return header


def build_doc(levels, kinds, outline, toc_pos, where="body"):
    doc = Document("text")
    body = doc.body
    body.clear()
    toc = TOC(outline_level=outline)
    items = []
    for i, (lv, kd) in enumerate(zip(levels, kinds)):
        items.append(place(make_header(lv, kd, i), where, i))
        items.append(Paragraph(f"para {i}"))
    pos = {"first": 0, "middle": (len(items) // 2) // 2 * 2, "last": len(items)}[toc_pos]
    items.insert(pos, toc)
    for it in items:
        body.append(it)
    return doc


def entries_of(toc_elem):
    ib = toc_elem.find("{%s}index-body" % TEXTNS)
    if ib is None:
        return None, []
    title = ib.find("{%s}index-title" % TEXTNS)
    ps = [c for c in ib if c.tag == "{%s}p" % TEXTNS]
    return title, ps


def check_fill(doc, levels, outline, cls, detail, fails, step):
    body = doc.body
    root = body._Element__element
    toc_elem = root.find(".//{%s}table-of-content" % TEXTNS)
    heads = [h for h in root.iter("{%s}h" % TEXTNS)]
    hlevels = [int(h.get("{%s}outline-level" % TEXTNS, "1")) for h in heads]
    limit = outline or 10
    sel = [(h, lv) for h, lv in zip(heads, hlevels) if lv <= limit]
    title, ps = entries_of(toc_elem)

    def rec(oracle, exp, act, symptom):
        fails.append({"signature": f"site=TOC.fill; class={cls}; symptom={symptom}",
                      "replay": {"replay_module": "mc.checks.c20", **detail, "history": [step], "oracle": oracle, "expected": exp, "actual": act}})

    if title is None or odfws.raw_text(title) != "Table of Contents":
        rec("title-kept", "Table of Contents", None if title is None else odfws.raw_text(title), "title-lost")
    if len(ps) != len(sel):
        rec("entry-count", len(sel), len(ps), "wrong-entries")
        return
    numbers = outline_model([lv for _, lv in sel])
    prev_num = None
    for i, ((h, lv), p) in enumerate(zip(sel, ps)):
        got = odfws.raw_text(p)
        htext = odfws.raw_text(h)
        if not got.endswith(htext):
            # distinguish "something after the heading text" from other differences
            if htext in got:
                rec("entry-text", f"<number> {htext}", got, "extra-content-after-heading-text")
            else:
                rec("entry-text", f"<number> {htext}", got, "heading-text-differs")
            return
        num = got[: len(got) - len(htext)]
        if not num.endswith(" "):
            rec("entry-format", "<number><space><text>", got, "entry-format")
            return
        num = num[:-1]
        if numbers[i] is not None:
            if num != numbers[i]:
                rec("number", numbers[i], num, "wrong-number")
                return
        else:
            comps = num.rstrip(".").split(".")
            if not num.endswith(".") or len(comps) != lv or not all(c.isdigit() for c in comps):
                rec("number-arity", f"{lv} components", num, "wrong-number")
                return
            tup = tuple(int(c) for c in comps)
            if prev_num is not None and not tup > prev_num:
                rec("number-order", f"> {prev_num}", tup, "wrong-number")
                return
        prev_num = tuple(int(c) for c in num.rstrip(".").split("."))
        if not odfws.is_normal_form(p):
            rec("entry-normal-form", got, odfws.collapsed_text(p), "entry-not-normal-form")
            return
    # differential: the odfdo-headers script prints the same outline
    buf = io.StringIO()
    try:
        with contextlib.redirect_stdout(buf):
            headers_document(doc, limit)
        if "lb" not in detail.get("kinds", []):
            # one line per heading, "<number> <text>"; the text of a heading may itself span lines
            # (an annotation body printed by the script): only lines starting with a number count
            snums = [ln.split(" ", 1)[0] for ln in buf.getvalue().splitlines() if re.match(r"\d+(\.\d+)*\. ", ln)]
            tnums = [odfws.raw_text(p).split(" ", 1)[0] for p in ps]
            if snums != tnums:
                rec("script-agrees", tnums, snums, "headers-script-disagrees")
    except Exception as e:
        rec("script-agrees", "no exception", type(e).__name__, "headers-script-raises")


def work(task):
    levels, kinds, outline, toc_pos, hist = task[:5]
    where = task[5] if len(task) > 5 else "body"
    fails = []
    nev = 0
    skipped = any(v is None for v in outline_model([lv for lv in levels if lv <= (outline or 10)]))
    kindcls = "+".join(sorted(set(kinds))) if kinds else "none"
    cls = ("skipped-levels" if skipped else "contiguous") + f",texts={kindcls}" + ("" if where == "body" else f",headings-in-{where}")
    detail = {"levels": list(levels), "kinds": list(kinds), "outline": outline, "toc_pos": toc_pos, "hist": hist, "where": where}
    try:
        doc = build_doc(levels, kinds, outline, toc_pos, where)
        toc = doc.body.get_toc()
        toc.fill()
        nev += 1
        check_fill(doc, levels, outline, cls, detail, fails, "fill")
        if fails:
            return nev, fails, cls
        s1 = toc.serialize()
        toc.fill()
        nev += 1
        if toc.serialize() != s1:
            fails.append({"signature": f"site=TOC.fill; class={cls}; symptom=second-fill-changes-toc",
                          "replay": {"replay_module": "mc.checks.c20", **detail, "history": ["fill", "fill"], "oracle": "idempotent", "expected": s1[:300], "actual": toc.serialize()[:300]}})
            return nev, fails, cls
        if hist and levels:
            body = doc.body
            heads = body.get_headers()
            if hist == "edit-text":
                heads[0].append(" more")
            elif hist == "edit-level":
                heads[-1].level = 1 if int(heads[-1].level) != 1 else 2
            elif hist == "delete":
                heads[0].delete()
            elif hist == "insert":
                body.append(Header(2, "added"))
            elif hist.startswith("outline="):
                # the requested outline level is changed through the property between two fills
                outline = int(hist.split("=")[1])
                toc.outline_level = outline
                if int(toc.outline_level or 0) != outline:
                    fails.append({"signature": f"site=TOC.outline_level; class={cls}; symptom=setter-not-read-back",
                                  "replay": {"replay_module": "mc.checks.c20", **detail, "history": ["fill", hist], "oracle": "outline_level read back", "expected": outline, "actual": toc.outline_level}})
            toc.fill()
            nev += 1
            new_levels = [int(h.level) for h in body.get_headers()]
            skipped2 = any(v is None for v in outline_model([lv for lv in new_levels if lv <= (outline or 10)]))
            cls2 = ("skipped-levels" if skipped2 else "contiguous") + f",texts={kindcls},after-{hist}" + ("" if where == "body" else f",headings-in-{where}")
            check_fill(doc, new_levels, outline, cls2, detail, fails, f"fill,{hist},fill")
    except Exception as e:
        import traceback

        fails.append({"signature": f"site=TOC.fill; class={cls}; symptom=raises:{type(e).__name__}",
                      "replay": {"replay_module": "mc.checks.c20", **detail, "history": ["fill"], "oracle": "raises", "expected": "no exception", "actual": traceback.format_exc()[-400:]}})
    return nev, fails, cls


def variant_task(task):
    """Two TOCs in one document, a TOC inside a section, fill(use_default_styles=False), fill(document=...)
    on a detached TOC: every TOC lists every heading (up to its outline level), whatever else is there."""
    levels, variant = task
    fails = []
    nev = 0
    cls = f"toc-variant={variant}"
    detail = {"levels": list(levels), "kinds": ["plain"] * len(levels), "outline": 0, "toc_pos": "first", "hist": None, "variant": variant}

    def rec(oracle, exp, act, symptom):
        fails.append({"signature": f"site=TOC.fill; class={cls}; symptom={symptom}",
                      "replay": {"replay_module": "mc.checks.c20", **detail, "history": ["fill"], "oracle": oracle, "expected": exp, "actual": act}})

    try:
        doc = Document("text")
        body = doc.body
        body.clear()
        tocs = [TOC(outline_level=0)]
        if variant == "in-section":
            sec = Element.from_tag('<text:section text:name="ST"/>')
            sec.append(tocs[0])
            body.append(sec)
        elif variant != "detached":
            body.append(tocs[0])
        for i, lv in enumerate(levels):
            body.append(Header(lv, f"Title{i}"))
            body.append(Paragraph(f"para {i}"))
        if variant == "two-tocs":
            tocs.append(TOC(outline_level=1, name="Second"))
            body.append(tocs[1])
        for t in tocs:
            nev += 1
            if variant == "no-default-styles":
                t.fill(use_default_styles=False)
            elif variant == "detached":
                t.fill(document=doc)
            else:
                t.fill()
        if variant == "two-tocs":
            tocs[0].fill()  # the first one again, after the second exists
        for t in tocs:
            limit = int(t.outline_level or 0) or 10
            want = [lv for lv in levels if lv <= limit]
            title, ps = entries_of(t._Element__element)
            texts = [odfws.raw_text(p) for p in ps]
            exp_titles = [f"Title{i}" for i, lv in enumerate(levels) if lv <= limit]
            if len(ps) != len(want) or any(not tx.endswith(" " + et) for tx, et in zip(texts, exp_titles)):
                rec("entries", exp_titles, texts, "wrong-entries")
            nums = outline_model(want)
            for tx, nm in zip(texts, nums):
                if nm is not None and not tx.startswith(nm + " "):
                    rec("number", nm, tx, "wrong-number")
                    break
            if variant == "no-default-styles" and any(p.get("{%s}style-name" % TEXTNS) for p in ps):
                rec("no-default-styles", "entries without the default entry styles", [p.get("{%s}style-name" % TEXTNS) for p in ps], "styles-applied-although-not-asked")
    except Exception as e:
        import traceback

        rec("raises", "no exception", traceback.format_exc()[-300:], f"raises:{type(e).__name__}")
    return nev, fails, cls


def tasks_for(tier):
    if tier == "quick":
        LV, maxlen = (1, 2, 3, 10), 4
    else:
        LV, maxlen = (1, 2, 3, 4, 10), 5
    out = []
    for n in range(0, maxlen + 1):
        for levels in itertools.product(LV, repeat=n):
            # representative choices for the other dimensions, rotated deterministically
            k = sum(levels) + n
            outlines = (0, 1, 2, 3, 10)
            poses = ("first", "middle", "last")
            hists = (None, "edit-text", "edit-level", "delete", "insert")
            kindsets = (("plain",), ("ws", "plain"), ("span", "ws"), ("note", "plain"), ("lb",), ("note-in-span", "plain"), ("annotation-in-link", "ws"))
            for j in range(2 if tier == "quick" else 5):
                ks = kindsets[(k + j) % len(kindsets)]
                kinds = tuple(ks[i % len(ks)] for i in range(n))
                out.append((levels, kinds, outlines[(k + 2 * j) % 5], poses[(k + j) % 3], hists[(k + 3 * j) % 5]))
    # full product on short sequences
    for n in range(0, 3):
        for levels in itertools.product(LV, repeat=n):
            for outline in (0, 1, 2, 3, 10):
                for pos in ("first", "middle", "last"):
                    for kd in ("plain", "ws", "span", "note", "lb", "note-in-span", "annotation-in-link"):
                        for hist in (None, "edit-text", "edit-level", "delete", "insert"):
                            out.append((levels, tuple(kd for _ in range(n)), outline, pos, hist))
    # the outline level changed through the TOC.outline_level property between two fills (every pair of levels)
    for n in range(0, 4):
        for levels in itertools.product(LV, repeat=n):
            for outline in (0, 1, 2, 3, 10):
                for new in (0, 1, 2, 3, 10):
                    if new != outline:
                        out.append((levels, tuple("plain" for _ in range(n)), outline, "first", f"outline={new}"))
    # headings inside sections, list items, table cells (every level sequence <= 3, two outline levels)
    for n in range(1, 4):
        for levels in itertools.product(LV[:3], repeat=n):
            for where in ("section", "list", "cell", "all"):
                for outline in (0, 2):
                    out.append((levels, tuple("plain" for _ in range(n)), outline, "first", None if n < 3 else "insert", where))
    return list(dict.fromkeys(out))


def run(prop, tier, vseed):
    t0 = time.time()
    tasks = tasks_for(tier)
    nproc = int(os.environ.get("VERIF_NPROC", "0")) or min(16, os.cpu_count() or 1)
    nev = 0
    failures = []
    classes = set()
    with mp.get_context("fork").Pool(nproc) as pool:
        for a, f, c in pool.imap_unordered(work, tasks, chunksize=8):
            nev += a
            failures.extend(f)
            if len(failures) > 20000:
                failures = report.compact(failures)
            classes.add(c)
        vtasks = [(lv, v) for n in range(0, 4) for lv in itertools.product((1, 2, 3), repeat=n)
                  for v in ("two-tocs", "in-section", "no-default-styles", "detached")]
        for a, f, c in pool.imap_unordered(variant_task, vtasks, chunksize=8):
            nev += a
            failures.extend(f)
            classes.add(c)
        tasks = tasks + vtasks
    cov = {
        "states": len(tasks),
        "transitions": nev,
        "traces_validated_against_impl": len(tasks),
        "evaluations": nev,
        "distinct_nontrivial": len(classes),
        "rule": "every heading level sequence up to the length bound over the level alphabet (with outline level, TOC position, heading text kind and edit history rotated over the sequences, and their full product on sequences of length <= 2); histories fill / fill,fill / fill,edit,fill; headings inside sections / list items / table cells; TOC variants (two TOCs, TOC in a section, use_default_styles=False, detached TOC filled with document=) on every level sequence <= 3 over {1,2,3}; distinct_nontrivial = distinct (skipped or contiguous, heading text kinds, edit) classes",
        "samples": [{"levels": [1, 2, 10], "kinds": ["plain", "note-in-span", "ws"], "outline": 2, "toc_pos": "middle", "history": ["fill", "edit-level", "fill"]}],
        "exhaustive": True,
    }
    assume = ["lxml, CPython trusted", "numbers for sequences with skipped levels are only required to have the right arity and to increase (no convention assumed)",
              "heading text = projection without note bodies"]
    return report.conclude(prop, tier, vseed, failures, cov, assume, t0)


def replay(rp):
    if rp.get("variant"):
        n, f, _ = variant_task((tuple(rp["levels"]), rp["variant"]))
        for h in f[:3]:
            print("FAIL", h["signature"], h["replay"]["expected"], h["replay"]["actual"])
        return 1 if f else 0
    t = (tuple(rp["levels"]), tuple(rp["kinds"]), rp["outline"], rp["toc_pos"], rp["hist"], rp.get("where", "body"))
    n, f, _ = work(t)
    for h in f[:3]:
        print("FAIL", h["signature"], h["replay"]["expected"], h["replay"]["actual"])
    return 1 if f else 0
