"""C15: reading, searching and exporting a document never changes it.

Entry points are collected by introspection (so a getter added later is covered):
public properties and methods whose name says "read" (get_*, is_*, search*, match,
text_at, *_text, to_*, as_*, show_*, __str__, serialize, ...) of Document, the XML
parts, the body and one instance of every element class present in the document.
"""

from __future__ import annotations

import inspect
import io
import multiprocessing as mp
import os
import re
import shutil
import tempfile
import time

from lxml import etree

from odfdo import Document, Element

from .. import report
from ..engine import digest
from ..machines.packages import SAMPLES, tmpdir

READ_NAME = re.compile(r"^(get_|is_|search|match$|text_at$|to_|as_|show_|serialize$|__str__$|__repr__$|export|iter_|traverse|minimized_width$|last_cell$|index$|xpath$|elements_repeated_sequence$)|(_text$|_text_recursive$)")
# documented to create on demand ("Created if not found"): not read-only by contract
EXCLUDED = {"get_variable_decls", "get_user_field_decls"}
# not reads in spite of their name
NOT_READS = {"get_formatted_text_rst", "append_plain_text"}
MUTATOR_PREFIX = ("append", "set_", "insert", "delete", "remove", "del_", "add_", "extend", "clear", "strip", "rstrip", "optimize", "transpose", "fill", "merge", "save", "replace_element")

ARG_BY_NAME = {
    "pattern": "a", "regex": "a", "content": "a", "name": "x", "family": "paragraph", "position": 0, "coord": "A1", "x": 0, "y": 0,
    "path": "content.xml", "xpath_query": "descendant::text:p", "start": 0, "end": 1, "style": "Standard", "name_or_element": "Standard",
    "tag": "text:p", "child": None, "title": "t", "url": "u", "creator": "c", "note_id": "n", "note_class": "footnote", "text_id": "t",
    "idx": 0, "level": 1, "outline_level": 1, "context": None, "pretty": False, "full_path": "content.xml", "display_name": "x",
    "xpath_instance": None, "target": None, "description": "d", "svg_title": "t", "table_name": "T", "draw_id": "d", "presentation_class": "title",
    "keyword": "k", "value_type": "string", "dialect": "excel", "path_or_file": None, "automatic": True, "common": True, "properties": False,
    "master": "Standard", "frame_name": "f", "image_name": "i", "draw_name": "d",
}


REQUIRED_DOMAINS = {"x": [1, 300], "y": [1, 300], "coord": ["B2", "KN301", (300, 300)], "position": [1, 50, -1], "idx": [1, 50]}

# optional parameters that select what is read: every value of these small domains is tried too
OPTIONAL_DOMAINS = {
    "coord": ["A1", "B1:C2", "B1:B1", "C1:D2", "B2", "D1:E1", (1, 0, 2, 1), (0, 1, 3, 1)],
    "start": [0, 1, 2], "end": [0, 1, 2], "cell_type": ["all", "float", "string"], "flat": [True], "complete": [False, True],
    "get_type": [True], "aggressive": [True], "keep_repeated": [False], "position": [0, 1, -1], "content": ["a"], "style": ["Standard"],
    "family": ["paragraph", "table-cell"], "automatic": [True], "formatted": [True], "pretty": [True], "with_ns": [True], "full": [True],
}


def snapshot(doc):
    parts = getattr(doc, "_Document__xmlparts")
    snap = {}
    for path, part in parts.items():
        if part is not None:
            tree = getattr(part, "_XmlPart__tree")
            if tree is not None:
                snap[path] = digest(etree.tostring(tree))
    cparts = getattr(doc.container, "_Container__parts")
    for k, v in cparts.items():
        if k not in snap:
            snap["c:" + k] = None if v is None else digest(v)
    return snap


def diff(a, b):
    # parts loaded lazily by a read are not a change of content: compare what both define,
    # and content of parts defined in both
    out = []
    for k in set(a) & set(b):
        if a[k] != b[k]:
            out.append(k)
    return sorted(out)


def result_repr(r, depth=0):
    try:
        if isinstance(r, Element):
            return ("E", r.serialize())
        if isinstance(r, (list, tuple)) and depth < 3:
            return tuple(result_repr(x, depth + 1) for x in list(r)[:50])
        if inspect.isgenerator(r) or hasattr(r, "__next__"):
            return tuple(result_repr(x, depth + 1) for x in list(r)[:50])
        if isinstance(r, dict):
            return tuple(sorted((repr(k), repr(result_repr(v, depth + 1))) for k, v in r.items()))[:50]
        if isinstance(r, (str, bytes, int, float, bool, type(None))):
            return r
        return ("O", type(r).__name__)
    except Exception as e:
        return ("raises", type(e).__name__)


def entry_points(obj):
    cls = type(obj)
    out = []
    for name in sorted(dir(cls)):
        if name in EXCLUDED or name in NOT_READS or name.startswith(MUTATOR_PREFIX):
            continue
        if name.startswith("_") and name not in ("__str__", "__repr__"):
            continue
        attr = inspect.getattr_static(cls, name)
        if isinstance(attr, property):
            out.append(("prop", name, None))
            continue
        if not callable(attr) and not isinstance(attr, (staticmethod, classmethod)):
            continue
        if not READ_NAME.search(name):
            if name == "replace":
                # without a replacement text replace() only counts
                for pat in ("a", "e", " ", r"\s+"):
                    out.append(("call", "replace", {"pattern": pat}))
                    out.append(("call", "replace", {"pattern": pat, "formatted": True}))
            continue
        try:
            sig = inspect.signature(getattr(obj, name))
        except (TypeError, ValueError):
            continue
        kwargs = {}
        ok = True
        for pn, p in sig.parameters.items():
            if p.kind in (p.VAR_POSITIONAL, p.VAR_KEYWORD):
                continue
            if p.default is not inspect._empty:
                continue
            if pn in ARG_BY_NAME and ARG_BY_NAME[pn] is not None:
                kwargs[pn] = ARG_BY_NAME[pn]
            else:
                ok = False
        if ok:
            out.append(("call", name, kwargs))
            # required selecting arguments: the edge and far beyond the populated area as well
            for pn in kwargs:
                for v in REQUIRED_DOMAINS.get(pn, ()):
                    out.append(("call", name, {**kwargs, pn: v}))
            for pn, p in sig.parameters.items():
                if p.default is not inspect._empty and pn in OPTIONAL_DOMAINS:
                    for v in OPTIONAL_DOMAINS[pn]:
                        out.append(("call", name, {**kwargs, pn: v}))
    return out


def objects_of(doc):
    """(label, getter(doc) -> object)."""
    objs = [("Document", lambda d: d), ("Document.body", lambda d: d.body), ("Document.meta", lambda d: d.meta), ("Document.manifest", lambda d: d.manifest),
            ("Document.styles", lambda d: d.styles), ("Document.content", lambda d: d.content)]
    seen = {}
    body = doc.body
    for i, e in enumerate(body.get_elements("descendant::*")):
        cn = type(e).__name__
        if cn == "Element" or cn in seen:
            continue
        seen[cn] = i
    for cn, i in seen.items():
        objs.append((cn, (lambda idx: (lambda d: d.body.get_elements("descendant::*")[idx]))(i)))
    # styles part: one style
    objs.append(("Style", lambda d: (d.get_styles() or [None])[0]))
    return objs


def too_big(seed, limit=3000):
    """Bounded table sizes (as the property says): skip documents whose expanded tables are huge."""
    if seed[0] != "file" or not seed[1].endswith(".ods"):
        return False
    try:
        doc = Document(str(SAMPLES / seed[1]))
        return any(t.width * t.height > limit for t in doc.body.get_tables())
    except Exception:
        return False


def doc_seeds(tier):
    small = ["example.odt", "simple_table.ods", "frame_image.odp", "base_shapes.odg", "toc.odt", "note.odt", "bookmark.odt", "variable.odt", "user_fields.odt",
             "tracked_changes.odt", "list.odt", "span_style.odt", "md_style.odt", "styled_table.ods", "meta.odt", "base_md_text.odt"]
    seeds = [("generated", "text-tables"), ("generated", "sheet-tables"), ("generated", "adjacency")]
    seeds += [("template", t) for t in ("text", "spreadsheet", "presentation", "drawing")] + [("file", f) for f in small]
    seeds = [sd for sd in seeds if not too_big(sd)]
    if tier != "quick":
        extra = sorted(p.name for p in SAMPLES.iterdir() if p.suffix in (".odt", ".ods", ".odp", ".odg") and p.name not in small and p.name != "big.ods")
        seeds += [sd for sd in (("file", f) for f in extra) if not too_big(sd)]
    return seeds


def generated(name):
    """Generated documents: tables with trailing empties / repeats inside a text document,
    headings + TOC + notes + lists + frames; or the adjacency document of C11."""
    if name == "adjacency":
        from .c11 import gen_document

        doc = gen_document("quick")[0]
        # keep the document small: every 12th block element
        body = doc.body
        for i, ch in enumerate(body.children):
            if i % 12:
                body.delete(ch)
        return doc
    from odfdo import Frame, Header, List, Paragraph, Table
    from odfdo.toc import TOC

    from ..machines.tables import TableMachine, table_xml

    doc = Document("text" if name == "text-tables" else "spreadsheet")
    body = doc.body
    body.clear()
    tm = TableMachine()
    if name == "text-tables":
        body.append(TOC())
        body.append(Header(1, "One"))
    for i in (0, 5, 47, tm.n_family + 2, tm.n_family + 3, tm.n_family + 4):
        spec = dict(tm.seed_list[i])
        t = Element.from_tag(table_xml(spec))
        t.name = f"T{i}"
        body.append(t)
    t = Table("Trailing", width=4, height=4)
    t.set_value((0, 0), "x")
    t.set_value((1, 1), 2)
    body.append(t)
    if name == "text-tables":
        body.append(Header(2, "Two"))
        p = Paragraph("some text with a note")
        p.insert_note(after="text", note_id="n1", citation="1", body="note body")
        p.insert_annotation(after="note", body="annot", creator="me")
        p.set_bookmark("bm", after="some")
        body.append(p)
        body.append(List(["a", "b"]))
        body.append(Frame.text_frame("in frame", size=("2cm", "1cm")))
        doc.body.get_toc().fill()
    return doc


def open_seed(seed):
    kind, name = seed
    if kind == "generated":
        doc = generated(name)
    else:
        doc = Document(name) if kind == "template" else Document(str(SAMPLES / name))
    # parse every part so that any change is visible
    for p in ("content", "styles", "meta", "settings", "manifest"):
        doc.get_part(p).root
    return doc


def work(seed):
    fails = []
    nev = 0
    eps = set()
    doc = open_seed(seed)
    snap0 = snapshot(doc)
    labels = objects_of(doc)
    os.chdir(tmpdir())  # exporters writing files by default go to scratch

    def fail(label, name, oracle, exp, act, symptom, **kw):
        fails.append({"signature": f"site={label}.{name}; class=read-only-entry-point; symptom={symptom}",
                      "replay": {"replay_module": "mc.checks.c15", "seed": list(seed), "object": label, "entry": name, "history": [], **kw,
                                 "oracle": oracle, "expected": exp, "actual": act}})

    for label, getter in labels:
        try:
            obj = getter(doc)
        except Exception:
            continue
        if obj is None:
            continue
        for kind, name, kwargs in entry_points(obj):
            eps.add((label.split(".")[-1] if label.startswith("Document.") else label, name, tuple(sorted((k, repr(v)) for k, v in (kwargs or {}).items()))))
            results = []
            changed = None
            for attempt in (0, 1):
                try:
                    obj = getter(doc)
                except Exception:
                    break
                before = snapshot(doc)
                nev += 1
                try:
                    if kind == "prop":
                        r = getattr(obj, name)
                    else:
                        r = getattr(obj, name)(**kwargs)
                    results.append(result_repr(r))
                except Exception as e:
                    results.append(("raises", type(e).__name__))
                after = snapshot(doc)
                d = diff(before, after)
                if d:
                    changed = d
                    break
            if changed:
                fail(label, name, "document-unchanged", "every part as before", changed, "read-modified-document", kwargs=kwargs)
                doc = open_seed(seed)
                continue
            if len(results) == 2 and results[0] != results[1] and not (isinstance(results[0], tuple) and results[0][:1] == ("O",)):
                # answers that embed the current time or object ids are not comparable
                if not re.search(r"0x[0-9a-f]{6,}", repr(results[0])):
                    fail(label, name, "same-answer-twice", repr(results[0])[:200], repr(results[1])[:200], "second-call-differs", kwargs=kwargs)
    # final: nothing drifted over the whole run
    final = snapshot(doc)
    return nev, fails, eps


def cross_document(tier):
    """Exporters: A, B, A -- the module-level Markdown context must not leak."""
    fails = []
    nev = 0
    names = ["base_md_text.odt", "md_style.odt", "example.odt", "list.odt"]
    for a in names:
        for b in names:
            if a == b:
                continue
            da, db = Document(str(SAMPLES / a)), Document(str(SAMPLES / b))
            for meth in ("to_markdown", "get_formatted_text", "__str__"):
                nev += 1
                try:
                    r1 = getattr(da, meth)()
                    getattr(db, meth)()
                    r3 = getattr(da, meth)()
                except Exception:
                    continue
                if r1 != r3:
                    fails.append({"signature": f"site=Document.{meth}; class=cross-document A,B,A; symptom=export-depends-on-previous-export",
                                  "replay": {"replay_module": "mc.checks.c15", "cross": [a, b], "entry": meth, "history": [], "oracle": "A,B,A", "expected": r1[:200], "actual": r3[:200]}})
    return nev, fails


def run(prop, tier, vseed):
    t0 = time.time()
    base = tempfile.mkdtemp(prefix="odfdo_verif_", dir="/dev/shm" if os.path.isdir("/dev/shm") else None)
    os.environ["MC_TMP"] = base
    cwd = os.getcwd()
    try:
        seeds = doc_seeds(tier)
        nproc = int(os.environ.get("VERIF_NPROC", "0")) or min(16, os.cpu_count() or 1)
        nev = 0
        failures = []
        eps = set()
        with mp.get_context("fork").Pool(nproc) as pool:
            for a, f, e in pool.imap_unordered(work, seeds, chunksize=1):
                nev += a
                failures.extend(f)
                if len(failures) > 20000:
                    failures = report.compact(failures)
                eps |= e
        n2, f2 = cross_document(tier)
        nev += n2
        failures.extend(f2)
        os.chdir(cwd)
        cov = {
            "states": len(seeds),
            "transitions": nev,
            "traces_validated_against_impl": len(seeds),
            "evaluations": nev,
            "distinct_nontrivial": len(eps),
            "excluded_create_on_demand": sorted(EXCLUDED),
            "rule": "every read-only entry point found by introspection (properties; methods named get_*/is_*/search*/match/text_at/*_text/to_*/as_*/show_*/iter_*/traverse*/serialize/__str__/replace(pattern)) of Document, body, meta, manifest, styles, content and one instance of every element class of each document, called twice; every parsed part and container part digested before/after each call; exporters in A,B,A order across documents; distinct_nontrivial = distinct (class, entry point) pairs exercised",
            "samples": [{"seed": list(seeds[5]), "object": "Table", "entry": "to_csv"}],
            "exhaustive": True,
        }
        assume = ["lxml trusted", "parts loaded lazily by a read are not counted as a change; content of every part present before and after must be identical",
                  "methods documented to create on demand are excluded: " + ", ".join(sorted(EXCLUDED))]
        return report.conclude(prop, tier, vseed, failures, cov, assume, t0)
    finally:
        os.chdir(cwd)
        shutil.rmtree(base, ignore_errors=True)


def replay(rp):
    base = tempfile.mkdtemp(prefix="odfdo_verif_", dir="/dev/shm" if os.path.isdir("/dev/shm") else None)
    os.environ["MC_TMP"] = base
    cwd = os.getcwd()
    try:
        if "cross" in rp:
            n, f = cross_document("quick")
            hits = [x for x in f if x["replay"]["cross"] == rp["cross"] and x["replay"]["entry"] == rp["entry"]]
        else:
            n, f, _ = work(tuple(rp["seed"]))
            hits = [x for x in f if x["replay"]["object"] == rp["object"] and x["replay"]["entry"] == rp["entry"]]
        for h in hits[:3]:
            print("FAIL", h["signature"], h["replay"]["expected"], h["replay"]["actual"])
        return 1 if hits else 0
    finally:
        os.chdir(cwd)
        shutil.rmtree(base, ignore_errors=True)
