"""C05: paragraph text round-trips exactly; XML in ODF white-space normal form.

State machine: a Paragraph / Header / Span; transition = append(piece).  Every
string up to the length bound is reached through every split into pieces (of
bounded size) and through the constructor; oracles after the last piece AND
after every prefix (each prefix is itself a string of the enumeration).
"""

from __future__ import annotations

import itertools
import multiprocessing as mp
import os
import time

from odfdo import Element, Header, Paragraph, Span

from .. import report
from ..models import odfws

S7 = ["a", " ", "\t", "\n", "<", "&", "é"]
S4 = ["a", " ", "\t", "\n"]
# characters Python calls white space (str.isspace, \s) but ODF does not: they are ordinary text
SU = ["a", " ", "\u00a0", "\u3000", "\u2003", "\t"]


def splits(n, maxpart):
    if n == 0:
        yield ()
        return
    for first in range(1, min(maxpart, n) + 1):
        for rest in splits(n - first, maxpart):
            yield (first,) + rest


def shape(s):
    m = {" ": "_", "\t": "T", "\n": "N"}
    return "".join(m.get(c, "a") for c in s) or "empty"


def ws_class(s):
    """Coarse input class: which white-space situations occur."""
    parts = []
    if s[:1] in (" ",):
        parts.append("lead-space")
    if s[-1:] in (" ",):
        parts.append("trail-space")
    if "  " in s:
        parts.append("space-run")
    if "\t" in s:
        parts.append("tab")
    if "\n" in s:
        parts.append("lf")
    if " \t" in s or "\t " in s or " \n" in s or "\n " in s:
        parts.append("space-next-to-ws-element")
    if any(c in s for c in "\u00a0\u3000\u2003"):
        parts.append("non-odf-unicode-space")
    return "+".join(parts) or "plain"


def make(cls, text=None):
    if cls == "Paragraph":
        return Paragraph(text) if text is not None else Paragraph()
    if cls == "Header":
        return Header(1, text) if text is not None else Header(1)
    return Span(text) if text is not None else Span()


def check_obj(obj, s):
    """Return (oracle, expected, actual) or None."""
    e = obj._Element__element
    it = obj.inner_text
    if it != s:
        return ("inner_text", s, it)
    try:
        back = Element.from_tag(obj.serialize())
    except Exception as ex:
        return ("serialize-reparse", "well-formed XML", type(ex).__name__)
    if type(back) is not type(obj):
        return ("reparse-class", type(obj).__name__, type(back).__name__)
    if back.inner_text != s:
        return ("reparse-inner_text", s, back.inner_text)
    raw = odfws.raw_text(e)
    col = odfws.collapsed_text(e)
    if raw != s:
        return ("independent-projection", s, raw)
    if col != s:
        return ("white-space-normal-form", s, col)
    # the re-parsed tree must be in normal form too
    be = back._Element__element
    if odfws.collapsed_text(be) != s:
        return ("reparse-normal-form", s, odfws.collapsed_text(be))
    return None


def work(task):
    cls, alpha, L, maxpart, prefix = task
    fails = []
    n = 0
    classes = set()
    rest_len = L - len(prefix)
    for tup in itertools.product(alpha, repeat=rest_len):
        s = prefix + "".join(tup)
        classes.add(ws_class(s))
        # constructor
        n += 1
        try:
            r = check_obj(make(cls, s), s)
        except Exception as ex:
            r = ("raises", "no exception", type(ex).__name__)
        if r:
            fails.append({"signature": f"site={cls}(text); class={ws_class(s)}; symptom={r[0]}",
                          "replay": {"replay_module": "mc.checks.c05", "cls": cls, "string": s, "pieces": None, "history": [],
                                     "oracle": r[0], "expected": r[1], "actual": r[2]}})
        for sp in splits(len(s), maxpart):
            if len(sp) <= 1 and len(s) <= maxpart and False:
                continue
            n += 1
            pieces = []
            i = 0
            for k in sp:
                pieces.append(s[i : i + k])
                i += k
            try:
                obj = make(cls)
                for pc in pieces:
                    obj.append(pc)
                r = check_obj(obj, s)
            except Exception as ex:
                r = ("raises", "no exception", type(ex).__name__)
            if r:
                fails.append({"signature": f"site={cls}.append; class={ws_class(s)}; symptom={r[0]}",
                              "replay": {"replay_module": "mc.checks.c05", "cls": cls, "string": s, "pieces": pieces, "history": [[p] for p in pieces],
                                         "oracle": r[0], "expected": r[1], "actual": r[2]}})
    return n, fails, classes


def plan(tier):
    tasks = []
    if tier == "quick":
        cfg = [(S7, 5, 2), (S4, 7, 2), (SU, 4, 2)]
    else:
        cfg = [(S7, 6, 2), (S4, 8, 2), (S7, 4, 4), (SU, 6, 2)]
    for cls in ("Paragraph", "Header", "Span"):
        for alpha, maxlen, maxpart in cfg:
            for L in range(0, maxlen + 1):
                if L <= 2:
                    tasks.append((cls, alpha, L, maxpart, ""))
                else:
                    for pre in itertools.product(alpha, repeat=2):
                        tasks.append((cls, alpha, L, maxpart, "".join(pre)))
    return tasks, cfg


def run(prop, tier, vseed):
    t0 = time.time()
    tasks, cfg = plan(tier)
    nproc = int(os.environ.get("VERIF_NPROC", "0")) or min(16, os.cpu_count() or 1)
    n = 0
    failures = []
    classes = set()
    with mp.get_context("fork").Pool(nproc) as pool:
        for a, f, c in pool.imap_unordered(work, tasks, chunksize=2):
            n += a
            failures.extend(f)
            if len(failures) > 20000:
                failures = report.compact(failures)
            classes |= c
    nstrings = sum(len(a) ** L for a, m, _ in cfg for L in range(m + 1)) * 3
    cov = {
        "states": nstrings,
        "transitions": n,
        "traces_validated_against_impl": n,
        "evaluations": n,
        "distinct_nontrivial": len(classes),
        "rule": "every string over the alphabet up to the length bound, for Paragraph, Header and Span, built by the constructor and by every split into successive append() pieces of bounded size; distinct_nontrivial = distinct white-space situation classes met (leading/trailing space, space run, tab, line feed, space next to tab/line-break)",
        "bounds": [{"alphabet": a, "max_len": m, "max_piece": p} for a, m, p in cfg],
        "samples": [{"cls": "Paragraph", "pieces": [" ", "a ", " \t", "\n"], "string": " a  \t\n"}],
        "exhaustive": True,
    }
    assume = ["lxml, CPython trusted", "white-space reading: ODF 1.2 part 1 section 6.1.2, strict (leading and trailing literal spaces of a paragraph are not relied upon)",
              "'randomly beyond the bound' of the quantifier is sampling and is not done"]
    return report.conclude(prop, tier, vseed, failures, cov, assume, t0)


def replay(rp):
    cls, s = rp["cls"], rp["string"]
    if rp.get("pieces") is None:
        obj = make(cls, s)
    else:
        obj = make(cls)
        for pc in rp["pieces"]:
            obj.append(pc)
    r = check_obj(obj, s)
    print(cls, repr(s), rp.get("pieces"), "->", obj.serialize())
    if r:
        print("FAIL", r)
        return 1
    return 0
