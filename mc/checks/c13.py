"""C13: styles land in the right container, stay unique by family+name, are found again."""

from __future__ import annotations

import io
import itertools
import multiprocessing as mp
import os
import time

from lxml import etree

from odfdo import Document, Style
from odfdo.utils import FAMILY_ODF_STD

from .. import report
from ..machines.packages import NS, SAMPLES

STYLE_NS = NS["style"]
OFFICE = NS["office"]
TABLE_NS = "urn:oasis:names:tc:opendocument:xmlns:table:1.0"
STD = sorted(FAMILY_ODF_STD)
NUMBER = ["date", "number", "percentage", "time", "boolean", "currency"]
OTHER = ["list", "master-page", "page-layout", "font-face"]
FAMILIES = STD + NUMBER + OTHER
NAMES = [None, "A", "B", "odfdo_auto_7"]
FLAGS = [(False, False), (True, False), (False, True)]
DOCS = [("template", "text"), ("template", "spreadsheet"), ("template", "presentation"), ("file", "lpod_styles.odt"), ("file", "example.odt")]
MERGE_DOCS = DOCS + [("file", "issue_28_pretty.odt"), ("file", "simple_table.ods"), ("file", "span_style.odt")]


def new_doc(seed):
    kind, name = seed
    return Document(name) if kind == "template" else Document(str(SAMPLES / name))


def make_style(family, name, marker):
    if family == "font-face":
        s = Style("font-face", name=name, font_name="Arial" + marker)
    else:
        s = Style(family, name=name)
    s.set_attribute("style:class", marker) if family in FAMILY_ODF_STD else None
    return s


def ops():
    out = []
    for f in FAMILIES:
        for n in NAMES:
            for a, d in FLAGS:
                if d and f not in FAMILY_ODF_STD:
                    continue  # default styles are documented for the style:style families only
                if f in OTHER and f != "list" and (n is None or a or d):
                    continue  # master pages, page layouts, font faces are named, neither automatic nor default
                if n is None and not a and not d:
                    continue  # documented precondition: a name, or automatic, or default
                out.append((f, n, a, d))
    # the name given on the fly (insert_style(style, name=N)): for an unnamed style and for a style
    # that already carries another name; the style must end up, and be found, under N
    for f in ("paragraph", "text", "table-cell", "number", "list", "page-layout", "master-page", "font-face"):
        for own in (None, "B"):
            for a in ((False, True) if f in FAMILY_ODF_STD else (False,)):
                if own is None and f in OTHER and f != "list":
                    continue
                out.append((f, own, a, False, "A"))
    return out


def expected_place(f, n, a, d):
    """(part, container local name, is_default)"""
    if f == "master-page":
        return ("styles", "master-styles")
    if f == "page-layout":
        return ("styles", "automatic-styles")
    if f == "font-face":
        return ("content", "font-face-decls")
    if d:
        return ("styles", "styles")
    if a:
        return ("content", "automatic-styles")
    return ("styles", "styles")


def containers(doc):
    out = {}
    for pname, part in (("content", doc.content), ("styles", doc.styles)):
        root = part.root._Element__element
        for c in root:
            if isinstance(c.tag, str) and c.tag.startswith("{%s}" % OFFICE):
                ln = etree.QName(c).localname
                if ln in ("styles", "automatic-styles", "master-styles", "font-face-decls"):
                    out[(pname, ln)] = c
    return out


def style_key(e):
    return (e.tag, e.get("{%s}family" % STYLE_NS), e.get("{%s}name" % STYLE_NS))


def duplicates(doc):
    dups = []
    for (pname, ln), c in containers(doc).items():
        seen = {}
        for e in c:
            if not isinstance(e.tag, str):
                continue
            k = style_key(e)
            if k[2] is None and e.tag != "{%s}default-style" % STYLE_NS:
                continue
            seen[k] = seen.get(k, 0) + 1
        for k, v in seen.items():
            if v > 1:
                dups.append((pname, ln, etree.QName(k[0]).localname, k[1], k[2], v))
    return dups


def find_where(doc, elem):
    for (pname, ln), c in containers(doc).items():
        if elem.getparent() is c:
            return (pname, ln)
    return None


def check_insert(doc, op, marker, cls, fails, hist):
    f, n, a, d = op[:4]
    given = op[4] if len(op) > 4 else None
    existing_auto = set()
    for (pname, ln), c in containers(doc).items():
        for e in c:
            if isinstance(e.tag, str):
                nm = e.get("{%s}name" % STYLE_NS)
                if nm:
                    existing_auto.add((e.tag, e.get("{%s}family" % STYLE_NS), nm, pname, ln))
    style = make_style(f, n, marker)

    def rec(oracle, exp, act, symptom):
        fails.append({"signature": f"site=Document.insert_style; class={cls}; symptom={symptom}",
                      "replay": {"replay_module": "mc.checks.c13", "history": hist + [list(op)], "oracle": oracle, "expected": exp, "actual": act}})

    try:
        if given is not None:
            ret = doc.insert_style(style, name=given, automatic=a, default=d)
        else:
            ret = doc.insert_style(style, automatic=a, default=d)
    except Exception as e:
        rec("raises", "no exception", f"{type(e).__name__}: {e}"[:150], f"raises:{type(e).__name__}")
        return None
    el = style._Element__element
    where = find_where(doc, el)
    exp = expected_place(f, n, a, d)
    if where != exp:
        rec("container", exp, where, "wrong-container")
    dups = duplicates(doc)
    if dups:
        rec("unique", [], dups, "duplicate-style")
    if d:
        if el.tag != "{%s}default-style" % STYLE_NS or el.get("{%s}name" % STYLE_NS) is not None:
            rec("default-style", "style:default-style without name", [etree.QName(el).localname, el.get("{%s}name" % STYLE_NS)], "default-style-malformed")
        try:
            found = doc.get_style(f)
        except Exception as e:
            found = None
            rec("lookup-raises", "no exception", type(e).__name__, f"lookup-raises:{type(e).__name__}")
        if found is None or found._Element__element is not el:
            rec("lookup-default", "the inserted default style", None if found is None else found.serialize()[:100], "default-style-not-found-again")
    else:
        name = ret
        if not name:
            rec("returned-name", "a name", ret, "no-name-returned")
            return style
        if name != el.get("{%s}name" % STYLE_NS):
            rec("returned-name", el.get("{%s}name" % STYLE_NS), name, "returned-name-differs")
        if given is not None and name != given:
            rec("name-on-the-fly", given, name, "given-name-not-applied")
        if n is None and given is None:
            # generated automatic name: must be new in its container
            tagfam = (el.tag, el.get("{%s}family" % STYLE_NS))
            clash = [x for x in existing_auto if (x[0], x[1], x[2]) == (tagfam[0], tagfam[1], name)]
            if clash:
                rec("automatic-name", "a name not used before", name, "generated-name-collides")
        try:
            found = doc.get_style(f, name)
        except Exception as e:
            found = None
            rec("lookup-raises", "no exception", type(e).__name__, f"lookup-raises:{type(e).__name__}")
        if found is None:
            rec("lookup", f"get_style({f!r}, {name!r}) finds it", None, "style-not-found-again")
        elif found._Element__element is not el:
            fe = found._Element__element
            # the same family+name also exists in another container (an automatic and a common style
            # of the same name: a conflict created by the caller, outside the property's domain)
            if not (style_key(fe) == style_key(el) and find_where(doc, fe) != find_where(doc, el)):
                rec("lookup", "the inserted element", found.serialize()[:120], "another-style-found")
    return style


def work(task):
    seed, first = task
    fails = []
    nev = 0
    classes = set()
    alls = ops()
    hist0 = [list(seed)]
    for second in ([None] if first is None else alls):
        doc = new_doc(seed)
        seq = [x for x in (first, second) if x is not None]
        if first is None:
            # depth 1: every op alone, plus save/reload
            for op in alls:
                doc = new_doc(seed)
                nev += 1
                f, n, a, d = op[:4]
                cls = f"family={'std' if f in FAMILY_ODF_STD else f},{'named' if n else 'unnamed'},{'automatic' if a else ('default' if d else 'common')}" + (",name-on-the-fly" if len(op) > 4 else "")
                classes.add(cls)
                st = check_insert(doc, op, "M1", cls, fails, hist0)
                if st is not None and not d:
                    # found again after save + reload
                    try:
                        buf = io.BytesIO()
                        doc.save(buf)
                        doc2 = Document(io.BytesIO(buf.getvalue()))
                        nm = st.name
                        found = doc2.get_style(f, nm)
                        if found is None:
                            fails.append({"signature": f"site=Document.insert_style; class={cls}; symptom=style-not-found-after-reload",
                                          "replay": {"replay_module": "mc.checks.c13", "history": hist0 + [list(op), ["save", "reload"]], "oracle": "reload-lookup", "expected": nm, "actual": None}})
                        elif duplicates(doc2):
                            fails.append({"signature": f"site=Document.insert_style; class={cls}; symptom=duplicate-style",
                                          "replay": {"replay_module": "mc.checks.c13", "history": hist0 + [list(op), ["save", "reload"]], "oracle": "unique", "expected": [], "actual": duplicates(doc2)}})
                    except Exception as e:
                        fails.append({"signature": f"site=Document.insert_style; class={cls}; symptom=save-reload-raises:{type(e).__name__}",
                                      "replay": {"replay_module": "mc.checks.c13", "history": hist0 + [list(op), ["save", "reload"]], "oracle": "reload", "expected": "no exception", "actual": str(e)[:150]}})
            break
        nev += 1
        f1 = first
        f, n, a, d = second[:4]
        same = (f1[0] == f, f1[1] == (second[4] if len(second) > 4 else n))
        cls = f"second:family={'std' if f in FAMILY_ODF_STD else f},{'named' if n else 'unnamed'},{'automatic' if a else ('default' if d else 'common')}{',name-on-the-fly' if len(second) > 4 else ''},after:{'same-family' if same[0] else 'other-family'}+{'same-name' if same[1] else 'other-name'}+{'automatic' if f1[2] else ('default' if f1[3] else 'common')}"
        classes.add(cls)
        pre = len(fails)
        check_insert(doc, first, "M1", "first", fails, hist0)
        del fails[pre:]  # the first insertion is judged at depth 1
        check_insert(doc, second, "M2", cls, fails, hist0 + [list(first)])
    return nev, fails, classes


def merge_task(seed):
    """merge_styles_from: union, the other document's definitions win, the other document unchanged."""
    fails = []
    nev = 0
    for other_seed in MERGE_DOCS:
        if other_seed == seed:
            continue
        nev += 1
        doc, other = new_doc(seed), new_doc(other_seed)
        doc.insert_style(Style("paragraph", name="Shared", area="text", color="#111111"))
        other.insert_style(Style("paragraph", name="Shared", area="text", color="#222222"))
        other.insert_style(Style("paragraph", name="OnlyOther"))
        doc.insert_style(Style("paragraph", name="OnlyMine"))
        before_other = (etree.tostring(other.styles.root._Element__element), etree.tostring(other.content.root._Element__element))

        def keys(d):
            out = set()
            for (pname, ln), c in containers(d).items():
                for e in c:
                    if isinstance(e.tag, str) and (e.get("{%s}name" % STYLE_NS) or e.tag == "{%s}default-style" % STYLE_NS):
                        out.add((pname, ln) + style_key(e))
            return out

        mine, theirs = keys(doc), keys(other)
        # what the other document defines under each (family, name), as odfdo itself names them
        their_defs = {}
        their_parts = {}
        old_elems = [e for c in containers(doc).values() for e in c]  # kept alive: identity of what was there before
        old_ids = {id(e) for e in old_elems}
        for st_ in other.get_styles():
            nm = getattr(st_, "name", None)
            if nm and st_.family:
                their_defs.setdefault((st_.family, nm), set()).add(etree.tostring(st_._Element__element, method="c14n", exclusive=True))
                their_parts.setdefault((st_.family, nm), set()).add("content" if st_.parent.parent.tag == "office:document-content" else "styles")
        cls = f"{seed[1]}<-{other_seed[1]}"
        try:
            doc.merge_styles_from(other)
        except Exception as e:
            fails.append({"signature": f"site=Document.merge_styles_from; class=merge; symptom=raises:{type(e).__name__}",
                          "replay": {"replay_module": "mc.checks.c13", "history": [list(seed), ["merge", list(other_seed)]], "oracle": "raises", "expected": "no exception", "actual": f"{type(e).__name__}: {e}"[:150]}})
            continue
        after_other = (etree.tostring(other.styles.root._Element__element), etree.tostring(other.content.root._Element__element))
        if after_other != before_other:
            left = len(keys(other))
            fails.append({"signature": "site=Document.merge_styles_from; class=merge; symptom=source-document-modified",
                          "replay": {"replay_module": "mc.checks.c13", "history": [list(seed), ["merge", list(other_seed)]], "oracle": "other-unchanged", "expected": f"{len(theirs)} styles left in the source", "actual": f"{left} styles left"}})
        got = keys(doc)
        # a style of ours replaced by the other document's style of the same part, type, family and name
        # (possibly kept in another container of that part) is "replaced", not lost
        replaced = {k for k in mine if any(t[0] == k[0] and t[2:] == k[2:] for t in theirs)}
        missing = sorted(str(k) for k in ((mine - replaced) | theirs) - got)
        if missing:
            fails.append({"signature": "site=Document.merge_styles_from; class=merge; symptom=not-the-union",
                          "replay": {"replay_module": "mc.checks.c13", "history": [list(seed), ["merge", list(other_seed)]], "oracle": "union", "expected": "every style of both", "actual": missing[:6]}})
        if duplicates(doc):
            fails.append({"signature": "site=Document.merge_styles_from; class=merge; symptom=duplicate-style",
                          "replay": {"replay_module": "mc.checks.c13", "history": [list(seed), ["merge", list(other_seed)]], "oracle": "unique", "expected": [], "actual": duplicates(doc)[:5]}})
        wrong = []
        for (fam_, nm), c14 in sorted(their_defs.items()):
            try:
                found = doc.get_style(fam_, nm)
            except Exception as e:
                found = None
            if found is None or etree.tostring(found._Element__element, method="c14n", exclusive=True) not in c14:
                wrong.append((fam_, nm))
            elif id(found._Element__element) in old_ids and find_where(doc, found._Element__element)[0] in their_parts[(fam_, nm)]:
                # lookup still answers with the receiver's old element although the other document defines
                # that family+name in the same part (a clash across parts is the caller's, outside the domain)
                wrong.append((fam_, nm, "old element kept in " + find_where(doc, found._Element__element)[1]))
        if wrong:
            fails.append({"signature": "site=Document.merge_styles_from; class=merge; symptom=other-definition-did-not-win",
                          "replay": {"replay_module": "mc.checks.c13", "history": [list(seed), ["merge", list(other_seed)]], "oracle": "other-wins-for-every-style", "expected": "every (family, name) of the other document is what get_style returns", "actual": wrong[:6]}})
        sh = doc.get_style("paragraph", "Shared")
        if sh is None or "#222222" not in sh.serialize():
            fails.append({"signature": "site=Document.merge_styles_from; class=merge; symptom=other-definition-did-not-win",
                          "replay": {"replay_module": "mc.checks.c13", "history": [list(seed), ["merge", list(other_seed)]], "oracle": "other-wins", "expected": "#222222", "actual": None if sh is None else sh.serialize()[:150]}})
    return nev, fails, {"merge"}


def numbering_task(family):
    """Generated automatic names never collide: every subset of pre-existing odfdo_auto_N names."""
    fails = []
    nev = 0
    pool = [1, 2, 9, 10, 11, 99, 100]
    for r in range(len(pool) + 1):
        for subset in itertools.combinations(pool, r):
            nev += 1
            doc = new_doc(("template", "text"))
            for n in subset:
                doc.insert_style(Style(family, name=f"odfdo_auto_{n}"), automatic=True)
            st = Style(family)
            try:
                name = doc.insert_style(st, automatic=True)
            except Exception as e:
                name = f"raises:{type(e).__name__}"
            existing = {f"odfdo_auto_{n}" for n in subset}
            bad = None
            if not isinstance(name, str) or not name or name in existing:
                bad = ("generated-name-collides", sorted(existing), name)
            else:
                found = doc.get_style(family, name)
                if found is None or found._Element__element is not st._Element__element:
                    bad = ("another-style-found", name, None if found is None else found.serialize()[:80])
                elif duplicates(doc):
                    bad = ("duplicate-style", [], duplicates(doc)[:3])
            if bad:
                cls = "existing:" + ("two-digit" if any(n >= 10 for n in subset) else "one-digit") + ("+gap" if subset and max(subset) != len(subset) else "")
                fails.append({"signature": f"site=Document.insert_style(automatic, unnamed); class={cls}; symptom={bad[0]}",
                              "replay": {"replay_module": "mc.checks.c13", "history": [["numbering", family, list(subset)]], "oracle": "automatic-name", "expected": str(bad[1]), "actual": str(bad[2])}})
    return nev, fails, {"numbering"}


# ------------------------------------------------------------------ document-level style operations
DOCOPS_DOCS = [("template", "spreadsheet"), ("file", "simple_table.ods"), ("template", "text"), ("file", "example.odt")]


def docops_alphabet(doc):
    names = [t.name for t in doc.body.get_tables()][:3]
    # (a common table style named like the names set_table_displayed generates: ta_<n>)
    ops_ = [("page_break",), ("weak_page_break",), ("stale_page_break",), ("delete_styles",), ("insert", "paragraph", "A"), ("insert_auto", "table"), ("insert", "table", "ta_0"), ("insert", "table", "ta_1")]
    for i, n in enumerate(names[:2]):
        ops_ += [("displayed", i, False), ("displayed", n, True)]
    if len(names) > 2:
        ops_ += [("displayed", 2, False)]
    return ops_


def table_view(doc):
    """Per table: (name, style name, display flag read independently from the automatic style)."""
    out = []
    cont = containers(doc)
    for t in doc.body.get_tables():
        sname = t._Element__element.get("{%s}style-name" % TABLE_NS)
        flag = None
        matches = 0
        for key in (("content", "automatic-styles"), ("styles", "styles"), ("styles", "automatic-styles")):
            c = cont.get(key)
            if c is None or sname is None:
                continue
            for e in c:
                if isinstance(e.tag, str) and e.get("{%s}name" % STYLE_NS) == sname and e.get("{%s}family" % STYLE_NS) == "table":
                    matches += 1
                    for pr in e:
                        v = pr.get("{%s}display" % TABLE_NS)
                        if v is not None:
                            flag = v
        out.append((t.name, sname, matches, flag))
    return out


def docops_task(seed):
    """Every sequence of document-level style operations up to depth 3."""
    fails = []
    nev = 0
    doc0 = new_doc(seed)
    alpha = docops_alphabet(doc0)
    depth = 3

    def rec(hist, site, symptom, exp, act):
        fails.append({"signature": f"site=Document.{site}; class=docops; symptom={symptom}",
                      "replay": {"replay_module": "mc.checks.c13", "history": [["docops"] + list(seed)] + [list(h) for h in hist], "oracle": symptom, "expected": exp, "actual": act}})

    def apply(doc, op, hist):
        name = op[0]
        before = table_view(doc)
        try:
            if name == "page_break":
                doc.add_page_break_style()
                st = doc.get_style("paragraph", "odfdopagebreak")
                props = (st.get_properties() or {}) if st is not None else {}
                if st is None or props.get("fo:break-after") != "page":
                    rec(hist, "add_page_break_style", "page-break-style-missing", "fo:break-after=page", None if st is None else props)
                x1 = (etree.tostring(doc.styles.root._Element__element), etree.tostring(doc.content.root._Element__element))
                doc.add_page_break_style()
                x2 = (etree.tostring(doc.styles.root._Element__element), etree.tostring(doc.content.root._Element__element))
                if x1 != x2:
                    rec(hist, "add_page_break_style", "not-idempotent", "second call changes nothing", "changed")
            elif name == "weak_page_break":
                # a style of that name without the break property: add_page_break_style must replace it, not duplicate
                doc.insert_style(Style("paragraph", name="odfdopagebreak"))
            elif name == "stale_page_break":
                # a style of that name that breaks somewhere else (a legal value other than "page"):
                # add_page_break_style must replace it as well
                st = Style("paragraph", name="odfdopagebreak")
                st.set_properties({"fo:break-after": "column"}, area="paragraph")
                doc.insert_style(st)
            elif name == "delete_styles":
                named = sum(1 for c in containers(doc).values() for e in c if isinstance(e.tag, str) and e.get("{%s}name" % STYLE_NS) is not None)
                n = doc.delete_styles()
                left = [(ln, etree.QName(e).localname, e.get("{%s}name" % STYLE_NS)) for (pn, ln), c in containers(doc).items() for e in c
                        if isinstance(e.tag, str) and e.get("{%s}name" % STYLE_NS) is not None]
                if left:
                    rec(hist, "delete_styles", "named-styles-left", [], left[:5])
                if n != named:
                    rec(hist, "delete_styles", "wrong-count", named, n)
            elif name == "insert":
                st = Style(op[1], name=op[2])
                r = doc.insert_style(st)
                f = doc.get_style(op[1], r)
                # (an automatic style of the same family and name already there is a clash made by the
                # caller: which of the two the lookup answers is outside the domain, as in check_insert)
                clash = f is not None and f._Element__element is not st._Element__element and style_key(f._Element__element) == style_key(st._Element__element) \
                    and find_where(doc, f._Element__element) != find_where(doc, st._Element__element)
                if (f is None or f._Element__element is not st._Element__element) and not clash:
                    rec(hist, "insert_style", "style-not-found-again", r, None if f is None else f.serialize()[:80])
            elif name == "insert_auto":
                existing = {e.get("{%s}name" % STYLE_NS) for c in containers(doc).values() for e in c if isinstance(e.tag, str)}
                st = Style(op[1])
                r = doc.insert_style(st, automatic=True)
                if r in existing:
                    rec(hist, "insert_style", "generated-name-collides", "a new name", r)
                f = doc.get_style(op[1], r)
                if f is None or f._Element__element is not st._Element__element:
                    rec(hist, "insert_style", "style-not-found-again", r, None if f is None else f.serialize()[:80])
            elif name == "displayed":
                tbl, flag = op[1], op[2]
                doc.set_table_displayed(tbl, flag)
                after = table_view(doc)
                idx = tbl if isinstance(tbl, int) else [t[0] for t in before].index(tbl)
                if doc.get_table_displayed(tbl) != flag:
                    rec(hist, "set_table_displayed", "flag-not-read-back", flag, doc.get_table_displayed(tbl))
                if after[idx][2] != 1 or after[idx][3] != ("true" if flag else "false"):
                    rec(hist, "set_table_displayed", "table-style-wrong", "exactly one table style with the flag", list(after[idx]))
                for i, (b, a) in enumerate(zip(before, after)):
                    if i != idx and (b != a or a[1] == after[idx][1]):
                        rec(hist, "set_table_displayed", "other-table-changed", list(b), list(a))
                        break
                # also after save + reload
                buf = io.BytesIO()
                doc.save(buf)
                d2 = Document(io.BytesIO(buf.getvalue()))
                if d2.get_table_displayed(tbl) != flag or table_view(d2) != after:
                    rec(hist, "set_table_displayed", "lost-after-reload", after, table_view(d2))
        except Exception as e:
            rec(hist, {"page_break": "add_page_break_style", "displayed": "set_table_displayed", "delete_styles": "delete_styles"}.get(name, "insert_style"),
                f"raises:{type(e).__name__}", "no exception", str(e)[:120])
            return False
        dups = duplicates(doc)
        if dups:
            rec(hist, {"page_break": "add_page_break_style", "displayed": "set_table_displayed", "delete_styles": "delete_styles"}.get(name, "insert_style"),
                "duplicate-style", [], dups[:4])
            return False
        return True

    for d in range(1, depth + 1):
        for hist in itertools.product(alpha, repeat=d):
            # judged at the last step only; histories whose prefix already failed are cut
            doc = new_doc(seed)
            ok = True
            pre = len(fails)
            for i, op in enumerate(hist):
                ok = apply(doc, op, hist[: i + 1])
                if i < len(hist) - 1:
                    if len(fails) > pre:
                        del fails[pre:]
                        ok = False
                if not ok:
                    break
            nev += 1
    return nev, fails, {"docops:" + o[0] for o in alpha}


def dispatch(t):
    if t[0] == "merge":
        return merge_task(t[1])
    if t[0] == "docops":
        return docops_task(t[1])
    if t[0] == "numbering":
        return numbering_task(t[1])
    return work(t[1])


def run(prop, tier, vseed):
    t0 = time.time()
    alls = ops()
    reps = [o for o in alls if o[0] in ("paragraph", "text", "number", "list", "page-layout", "table-cell") and o[1] in ("A", None, "odfdo_auto_7", "B") and (len(o) == 4 and o[1] != "B" or len(o) > 4)]
    if tier == "quick":
        reps = reps[::2]
        docs2 = DOCS[:1]
    else:
        docs2 = DOCS[:3]
    tasks = [("w", (seed, None)) for seed in DOCS]
    tasks += [("w", (seed, first)) for seed in docs2 for first in reps]
    tasks += [("merge", seed) for seed in MERGE_DOCS]
    tasks += [("numbering", fam) for fam in ("paragraph", "text", "table-cell", "graphic")]
    tasks += [("docops", seed) for seed in DOCOPS_DOCS]
    nproc = int(os.environ.get("VERIF_NPROC", "0")) or min(16, os.cpu_count() or 1)
    nev = 0
    failures = []
    classes = set()
    with mp.get_context("fork").Pool(nproc) as pool:
        for a, f, c in pool.imap_unordered(dispatch, tasks, chunksize=1):
            nev += a
            failures.extend(f)
            classes |= c
    cov = {
        "states": len(tasks),
        "transitions": nev,
        "traces_validated_against_impl": len(tasks),
        "evaluations": nev,
        "distinct_nontrivial": len(classes),
        "alphabet_size": len(alls),
        "families": FAMILIES,
        "rule": "every insert_style(family x name in {None, A, B, odfdo_auto_7} x {common, automatic, default}) inside its documented domain alone (plus save+reload) on 5 documents, every ordered pair (representative first op, any second op), merge_styles_from between every pair of documents (union, other's definition wins for every family+name, source unchanged); every sequence up to depth 3 of {add_page_break_style, a weak style of that name, delete_styles, insert_style, set_table_displayed by index / by name} on 4 documents; independent lxml walk over office:styles / automatic-styles / master-styles / font-face-decls of both parts; distinct_nontrivial = distinct (family class, naming, kind, relation to the first op) classes",
        "samples": [{"doc": "text", "history": [["paragraph", None, True, False], ["paragraph", "odfdo_auto_1", True, False]]}],
        "exhaustive": True,
    }
    assume = ["lxml trusted", "domain: a name or automatic or default is given; default only for style:style families; master pages, page layouts and font faces are named"]
    return report.conclude(prop, tier, vseed, failures, cov, assume, t0)


def replay(rp):
    hist = rp["history"]
    seed = tuple(hist[0])
    if hist[0][0] == "docops":
        n, f, _ = docops_task(tuple(hist[0][1:]))
    elif hist[0][0] == "numbering":
        n, f, _ = numbering_task(hist[0][1])
    elif len(hist) > 1 and hist[1][0] == "merge":
        n, f, _ = merge_task(seed)
    else:
        opsl = [tuple(h) for h in hist[1:] if h[0] != "save"]
        n, f, _ = work((seed, opsl[0] if len(opsl) > 1 else None))
    hits = [x for x in f if x["replay"]["history"] == hist]
    for h in hits[:3]:
        print("FAIL", h["signature"], h["replay"]["expected"], h["replay"]["actual"])
    return 1 if hits else 0
