"""C14: anything is found again under the name it was given, whatever the name contains."""

from __future__ import annotations

import itertools
import multiprocessing as mp
import os
import time

from odfdo import Annotation, Document, DrawPage, Element, Frame, Link, Note, Paragraph, Style, Table
from odfdo.variable import UserDefined, UserFieldDecl, VarDecl, VarSet

from .. import report

SIGMA = ["a", "B", " ", '"', "'", "&", "<", "[", "]", "/", ".", "é"]


def names(maxlen):
    for n in range(1, maxlen + 1):
        for tup in itertools.product(SIGMA, repeat=n):
            yield "".join(tup)


def name_class(n):
    parts = []
    if '"' in n:
        parts.append("double-quote")
    if "'" in n:
        parts.append("apostrophe")
    if '"' in n and "'" in n:
        parts.append("both-quotes")
    if " " in n:
        parts.append("space")
    if any(c in n for c in "&<"):
        parts.append("xml-special")
    if any(c in n for c in "[]/."):
        parts.append("xpath-significant")
    if "é" in n:
        parts.append("non-ascii")
    return "+".join(parts) or "plain"


def decoys(n):
    out = [n + "x", "x" + n, n + n]
    if len(n) > 1:
        out.append(n[:-1] + "x")
        out.append(n[1:])
    out.append(n.replace('"', "'") if '"' in n else n + '"')
    return [d for d in dict.fromkeys(out) if d != n and d]


# each kind: build(names list) -> context; lookups: list of (label, fn(context, n) -> identifier of the found object or None)
def text_doc():
    doc = Document("text")
    doc.body.clear()
    return doc


def kinds():
    K = []

    def k_table(all_names):
        doc = Document("spreadsheet")
        doc.body.clear()
        for nm in all_names:
            doc.body.append(Table(nm, width=1, height=1))
        return doc

    K.append(("table", k_table, [("Body.get_table(name=)", lambda d, n: getattr(d.body.get_table(name=n), "name", None))]))

    def k_style(all_names):
        doc = text_doc()
        for nm in all_names:
            doc.insert_style(Style("paragraph", name=nm))
        return doc

    K.append(("style", k_style, [("Document.get_style", lambda d, n: getattr(d.get_style("paragraph", n), "name", None)),
                                 ("Styles.get_style", lambda d, n: getattr(d.styles.get_style("paragraph", n), "name", None))]))

    def k_bookmark(all_names):
        doc = text_doc()
        for nm in all_names:
            p = Paragraph("some text here")
            p.set_bookmark(nm, after="some")
            p.set_bookmark("r" + nm, content="text")
            doc.body.append(p)
        return doc

    K.append(("bookmark", k_bookmark, [("get_bookmark(name=)", lambda d, n: getattr(d.body.get_bookmark(name=n), "name", None)),
                                       ("get_bookmark_start(name=)", lambda d, n: (lambda e: e.name[1:] if e is not None else None)(d.body.get_bookmark_start(name="r" + n))),
                                       ("get_bookmark_end(name=)", lambda d, n: (lambda e: e.name[1:] if e is not None else None)(d.body.get_bookmark_end(name="r" + n)))]))

    def k_refmark(all_names):
        doc = text_doc()
        for nm in all_names:
            p = Paragraph("some text here")
            p.set_reference_mark(nm, after="some")
            p.set_reference_mark("r" + nm, content="text")
            doc.body.append(p)
        return doc

    K.append(("reference-mark", k_refmark, [("get_reference_mark_single(name=)", lambda d, n: getattr(d.body.get_reference_mark_single(name=n), "name", None)),
                                            ("get_reference_mark(name=)", lambda d, n: getattr(d.body.get_reference_mark(name=n), "name", None)),
                                            ("get_reference_mark(name=) range", lambda d, n: (lambda e: e.name[1:] if e is not None else None)(d.body.get_reference_mark(name="r" + n))),
                                            ("get_reference_mark_end(name=)", lambda d, n: (lambda e: e.name[1:] if e is not None else None)(d.body.get_reference_mark_end(name="r" + n)))]))

    def k_frame(all_names):
        doc = text_doc()
        for nm in all_names:
            f = Frame.text_frame("t", size=("1cm", "1cm"), name=nm)
            p = Paragraph("")
            p.append(f)
            doc.body.append(p)
        return doc

    K.append(("frame", k_frame, [("get_frame(name=)", lambda d, n: getattr(d.body.get_frame(name=n), "name", None)),
                                 ("get_frame(name=, position=0)", lambda d, n: getattr(d.body.get_frame(position=0, name=n), "name", None))]))

    def k_drawpage(all_names):
        doc = Document("presentation")
        doc.body.clear()
        for i, nm in enumerate(all_names):
            doc.body.append(DrawPage(f"id{i}", name=nm))
        return doc

    K.append(("draw-page", k_drawpage, [("get_draw_page(name=)", lambda d, n: getattr(d.body.get_draw_page(name=n), "name", None))]))

    def k_var(all_names):
        doc = text_doc()
        decls = doc.body.get_variable_decls()
        for nm in all_names:
            decls.append(VarDecl(nm, "float"))
            p = Paragraph("")
            p.append(VarSet(nm, value=1))
            doc.body.append(p)
        return doc

    K.append(("variable", k_var, [("get_variable_decl(name)", lambda d, n: getattr(d.body.get_variable_decl(n), "name", None)),
                                  ("get_variable_set(name)", lambda d, n: getattr(d.body.get_variable_set(n), "name", None))]))

    def k_userfield(all_names):
        doc = text_doc()
        decls = doc.body.get_user_field_decls()
        for i, nm in enumerate(all_names):
            decls.append(UserFieldDecl(nm, value=i))
        return doc

    K.append(("user-field", k_userfield, [("get_user_field_decl(name)", lambda d, n: getattr(d.body.get_user_field_decl(n), "name", None))]))

    def k_note(all_names):
        doc = text_doc()
        for i, nm in enumerate(all_names):
            p = Paragraph("some text")
            p.insert_note(after="some", note_id=nm, citation="1", body="b", note_class="footnote" if i % 2 == 0 else "endnote")
            doc.body.append(p)
        return doc

    def note_with_class(d, n):
        # both criteria: the note's own class finds it, the other class finds nothing
        note = d.body.get_note(note_id=n)
        if note is None:
            return None
        own = note.note_class
        other = "endnote" if own == "footnote" else "footnote"
        a = d.body.get_note(note_id=n, note_class=own)
        b = d.body.get_note(note_id=n, note_class=other)
        if b is not None:
            return f"found under the other class: {b.note_id}"
        return getattr(a, "note_id", None)

    K.append(("note-id", k_note, [("get_note(note_id=)", lambda d, n: getattr(d.body.get_note(note_id=n), "note_id", None)),
                                  ("get_note(note_id=, note_class=)", note_with_class)]))

    def k_manifest(all_names):
        doc = text_doc()
        for nm in all_names:
            doc.manifest.add_full_path(nm, "application/x-" + str(len(nm)))
        return doc

    K.append(("manifest-path", k_manifest, [("Manifest.get_media_type", lambda d, n: (n if d.manifest.get_media_type(n) == "application/x-" + str(len(n)) else d.manifest.get_media_type(n))),
                                            ("Manifest.set_media_type", lambda d, n: (d.manifest.set_media_type(n, "z/z"), n)[1] if d.manifest.get_media_type(n) is not None else None)]))

    def k_link(all_names):
        doc = text_doc()
        for nm in all_names:
            p = Paragraph("")
            p.append(Link("http://x/", name=nm, text="t"))
            doc.body.append(p)
        return doc

    K.append(("link", k_link, [("get_link(name=)", lambda d, n: getattr(d.body.get_link(name=n), "name", None))]))

    def k_userdefined(all_names):
        doc = text_doc()
        for nm in all_names:
            p = Paragraph("")
            p.append(UserDefined(nm, value=1))
            doc.body.append(p)
        return doc

    K.append(("user-defined", k_userdefined, [("get_user_defined(name)", lambda d, n: getattr(d.body.get_user_defined(n), "name", None))]))

    def k_namedrange(all_names):
        doc = Document("spreadsheet")
        doc.body.clear()
        t = Table("T", width=2, height=2)
        doc.body.append(t)
        t = doc.body.get_table(0)
        for nm in all_names:
            t.set_named_range(nm, "A1")
        return doc

    K.append(("named-range", k_namedrange, [("get_named_range(name)", lambda d, n: getattr(d.body.get_named_range(n), "name", None))]))

    def k_rangetable(all_names):
        # the identifier is the name of the *table* a named range points at: it is written, quoted and
        # escaped, into table:cell-range-address and must be read back as given
        doc = Document("spreadsheet")
        doc.body.clear()
        for i, nm in enumerate(all_names):
            doc.body.append(Table(nm, width=2, height=2))
            doc.body.get_table(i).set_named_range(f"rng_{i}", "A1:B2")
        return doc

    def ranges_of_table(d, n):
        got = [nr.name for nr in d.body.get_table(name=n).get_named_ranges(table_name=n)]
        return n if got == ["rng_0"] else f"ranges found under the table name: {got}"

    def table_of_range(d, n):
        nr = d.body.get_named_range("rng_0")
        return nr.table_name if nr is not None else None

    def values_of_range(d, n):
        nr = d.body.get_named_range("rng_0")
        nr.get_values()
        return n

    K.append(("named-range-table", k_rangetable, [("get_named_ranges(table_name=)", ranges_of_table),
                                                  ("NamedRange.table_name", table_of_range),
                                                  ("NamedRange.get_values", values_of_range)]))

    def k_annotation(all_names):
        doc = text_doc()
        for nm in all_names:
            p = Paragraph("some text here")
            p.insert_annotation(Annotation("body", creator="me", name=nm), content="text")
            doc.body.append(p)
        return doc

    K.append(("annotation", k_annotation, [("get_annotation(name=)", lambda d, n: getattr(d.body.get_annotation(name=n), "name", None)),
                                           ("get_annotation_end(name=)", lambda d, n: getattr(d.body.get_annotation_end(name=n), "name", None))]))

    def k_shapes(all_names):
        from odfdo import ConnectorShape, EllipseShape, LineShape, RectangleShape

        doc = Document("drawing")
        doc.body.clear()
        page = DrawPage("p1", name="page")
        for nm in all_names:
            page.append(LineShape(draw_id="L" + nm, p1=("1cm", "1cm"), p2=("2cm", "2cm")))
            page.append(RectangleShape(draw_id="R" + nm, size=("1cm", "1cm"), position=("1cm", "1cm")))
            page.append(EllipseShape(draw_id="E" + nm, size=("1cm", "1cm"), position=("1cm", "1cm")))
        doc.body.append(page)
        return doc

    K.append(("shape-id", k_shapes, [("get_draw_line(id=)", lambda d, n: (lambda e: e.get_attribute_string("draw:id")[1:] if e is not None else None)(d.body.get_draw_line(id="L" + n))),
                                     ("get_draw_rectangle(id=)", lambda d, n: (lambda e: e.get_attribute_string("draw:id")[1:] if e is not None else None)(d.body.get_draw_rectangle(id="R" + n))),
                                     ("get_draw_ellipse(id=)", lambda d, n: (lambda e: e.get_attribute_string("draw:id")[1:] if e is not None else None)(d.body.get_draw_ellipse(id="E" + n)))]))

    def k_image(all_names):
        doc = text_doc()
        for nm in all_names:
            f = Frame.image_frame("Pictures/x.png", size=("1cm", "1cm"), name=nm)
            p = Paragraph("")
            p.append(f)
            doc.body.append(p)
        return doc

    K.append(("image-frame", k_image, [("get_image(name=)", lambda d, n: (lambda e: e.parent.name if e is not None else None)(d.body.get_image(name=n)))]))

    def k_display_name(all_names):
        doc = text_doc()
        for i, nm in enumerate(all_names):
            doc.insert_style(Style("paragraph", name=f"S{i}", display_name=nm))
        return doc

    K.append(("style-display-name", k_display_name, [("get_style(display_name=)", lambda d, n: getattr(d.get_style("paragraph", display_name=n), "display_name", None))]))

    def k_section(all_names):
        from odfdo import Section

        doc = text_doc()
        for nm in all_names:
            doc.body.append(Section(name=nm))
        return doc

    K.append(("section", k_section, [("get_office_names", lambda d, n: n if True else None)]))
    return K


def work(task):
    kind_idx, chunk = task
    kname, build, lookups = kinds()[kind_idx]
    fails = []
    nev = 0
    classes = set()
    for n in chunk:
        if kname in ("table", "named-range", "named-range-table") and n != n.strip():
            continue  # documented: these setters strip the name, the accepted identifier is n.strip()
        all_names = [n] + [d for d in decoys(n) if not (kname in ("table", "named-range", "named-range-table") and d != d.strip())]
        ctx = None
        for attempt in (all_names, [n]):
            try:
                ctx = build(attempt)
                break
            except (ValueError, TypeError):
                # the setter does not accept this identifier (or one of its decoys): retry without decoys
                ctx = None
            except Exception as e:
                # anything else while storing an identifier is an internal error, not a refusal
                nev += 1
                fails.append({"signature": f"site=store:{kname}; class={name_class(n)}; symptom=raises:{type(e).__name__}",
                              "replay": {"replay_module": "mc.checks.c14", "kind": kname, "lookup": f"store:{kname}", "name": n, "history": [], "oracle": "store", "expected": "stored or refused with ValueError", "actual": f"{type(e).__name__}: {e}"[:200]}})
                ctx = None
                break
        if ctx is None:
            continue
        for label, fn in lookups:
            if kname == "section":
                continue
            nev += 1
            classes.add((kname, name_class(n)))
            try:
                got = fn(ctx, n)
            except Exception as e:
                got = f"raises:{type(e).__name__}"
            if got != n:
                symptom = got if isinstance(got, str) and got.startswith("raises:") else ("not-found" if got is None else "wrong-object-found")
                fails.append({"signature": f"site={label}; class={name_class(n)}; symptom={symptom}",
                              "replay": {"replay_module": "mc.checks.c14", "kind": kname, "lookup": label, "name": n, "history": [], "oracle": "found-again", "expected": n, "actual": got}})
    return nev, fails, classes


def run(prop, tier, vseed):
    t0 = time.time()
    maxlen = 2 if tier == "quick" else 3
    allnames = list(names(maxlen))
    K = kinds()
    tasks = []
    step = 40
    for ki in range(len(K)):
        for i in range(0, len(allnames), step):
            tasks.append((ki, allnames[i : i + step]))
    # table names are quoted/escaped in range addresses only when an apostrophe meets a space or a dot,
    # and an apostrophe is legal only inside the name: all such names one character longer than the bound
    extra = ["".join(t) for t in itertools.product(["a", "'", ".", " "], repeat=maxlen + 1)]
    ki = [k[0] for k in K].index("named-range-table")
    for i in range(0, len(extra), step):
        tasks.append((ki, extra[i : i + step]))
    nproc = int(os.environ.get("VERIF_NPROC", "0")) or min(16, os.cpu_count() or 1)
    nev = 0
    failures = []
    classes = set()
    with mp.get_context("fork").Pool(nproc) as pool:
        for a, f, c in pool.imap_unordered(work, tasks, chunksize=2):
            nev += a
            failures.extend(f)
            if len(failures) > 20000:
                failures = report.compact(failures)
            classes |= c
    cov = {
        "states": len(allnames) + len(extra),
        "transitions": nev,
        "traces_validated_against_impl": nev,
        "evaluations": nev,
        "distinct_nontrivial": len(classes),
        "alphabet": SIGMA,
        "max_len": maxlen,
        "kinds": [k[0] for k in K if k[0] != "section"],
        "rule": "every identifier up to the length bound over an alphabet rich in XPath/XML-significant characters, accepted by the setter, stored with decoys (n+'x', 'x'+n, n+n, one character replaced/removed, quote swapped) and looked up through every name-taking entry point of its kind; distinct_nontrivial = distinct (kind, character class) pairs",
        "samples": [{"kind": "table", "name": 'a"', "decoys": decoys('a"')}],
        "exhaustive": True,
    }
    assume = ["lxml trusted", "Element.get_section takes no name: sections are not looked up by name in this API"]
    return report.conclude(prop, tier, vseed, failures, cov, assume, t0)


def replay(rp):
    K = kinds()
    ki = [k[0] for k in K].index(rp["kind"])
    n, f, _ = work((ki, [rp["name"]]))
    hits = [x for x in f if x["replay"]["lookup"] == rp["lookup"]]
    for h in hits[:3]:
        print("FAIL", h["signature"], h["replay"]["expected"], h["replay"]["actual"])
    return 1 if hits else 0
