"""C10: a clone is equal at birth and independent for life.

Twin exploration: o = object reached by a history, c = o.clone.  The *twin
choice* is the deviation: operation sequences A (on the original) and B (on
the clone) are interleaved; each twin must end exactly as when its own
sequence is run alone (differential oracle), the untouched twin never changes,
and no map list / index dict is shared.
"""

from __future__ import annotations

import multiprocessing as mp
import os
import time

from lxml import etree

from odfdo import Cell, Element, Row

from .. import engine, report
from ..machines.rows import RowMachine
from ..machines.tables import TableMachine
from .c08 import snap

TM = None
RM = None
TIER = "quick"


def rsnap(r):
    return (r.serialize(), tuple(r._rmap), tuple(sorted(r._indexes["_rmap"])))


def esnap(e):
    return e.serialize()


class TwinFail(Exception):
    pass


def table_twins(task):
    """All twin experiments for one table state."""
    sidx, hist = task
    tm = TM
    seed = tm.seed_list[sidx]
    fails, nev = [], 0
    pairs_seen = set()

    def build():
        st = engine.run_history(tm, seed, hist)
        return st

    st = build()
    # states produced by the open finding F28 (repeated setters on bound objects) are
    # reported by C01/C02 and not explored here; every other state is, even when wrong
    if st.exc or any(o[0] in ("row_repeated", "cell_repeated") for o in hist):
        return (0, [], 0)
    st = build()
    alph = "mini"
    ops = [op for op in tm.enabled(st, alph) if not op[0].startswith("read_") and op[0] not in ("row_repeated", "cell_repeated")]
    reads = [op for op in tm.enabled(st, alph) if op[0].startswith("read_")]

    def fail(what, exp, act, symptom, a=None, b=None, order=None):
        site = "Table.clone"
        fails.append({
            "signature": f"site={site}; class={what}; symptom={symptom}",
            "replay": {"replay_module": "mc.checks.c10", "object": "table", "seed": seed, "history": [list(o) for o in hist],
                       "a": list(a) if a else None, "b": list(b) if b else None, "order": order,
                       "oracle": what, "expected": exp, "actual": act},
        })

    # ---- birth
    t = st.table
    before = snap(t)
    c = t.clone
    nev += 1
    if snap(t) != before:
        fail("birth", "original unchanged by cloning", "changed", "clone-modified-original")
    if c.serialize() != t.serialize():
        fail("birth", "same XML", "different XML", "clone-differs-at-birth")
    if (list(c._tmap), list(c._cmap)) != (list(t._tmap), list(t._cmap)):
        fail("birth", (list(t._tmap), list(t._cmap)), (list(c._tmap), list(c._cmap)), "clone-maps-differ-at-birth")
    if c._tmap is t._tmap or c._cmap is t._cmap or c._indexes is t._indexes or c._indexes["_tmap"] is t._indexes["_tmap"]:
        fail("birth", "own lists", "shared list object", "shared-map-object")
    W, H = st.model.width, st.model.height
    if tm.obs_impl(c, W, H) != tm.obs_impl(build().table, W, H):
        fail("birth", "same answers", "different answers", "clone-answers-differ-at-birth")

    # a clone of the clone (with and without reads in between) answers like the original
    for reads in (False, True):
        nev += 1
        s1 = build()
        c1 = s1.table.clone
        if reads:
            tm._apply_impl(c1, ("read_all",))
        c2 = c1.clone
        if c2.serialize() != s1.table.serialize() or tm.obs_impl(c2, W, H) != tm.obs_impl(build().table, W, H):
            fail("birth", "clone of a clone == original", "differs", "clone-of-clone-differs")
        if c2._tmap is c1._tmap or c2._cmap is c1._cmap or c2._indexes["_tmap"] is c1._indexes["_tmap"]:
            fail("birth", "own lists", "shared list object", "shared-map-object")

    # ---- reference: each op alone on a fresh original / on a fresh clone
    def run_alone_orig(a):
        s = build()
        try:
            tm._apply_impl(s.table, a)
        except Exception as e:
            return ("raises", type(e).__name__)
        return snap(s.table)

    def run_alone_clone(b, pre_reads=()):
        s = build()
        cc = s.table.clone
        try:
            tm._apply_impl(cc, b)
        except Exception as e:
            return ("raises", type(e).__name__)
        return snap(cc)

    alone_o = {repr(a): run_alone_orig(a) for a in ops}
    alone_c = {repr(b): run_alone_clone(b) for b in ops}

    # ---- |A|+|B| = 1: the untouched twin never changes
    for a in ops:
        for cached in (False, True):
            s = build()
            if cached:
                tm._apply_impl(s.table, ("read_all",))
            cc = s.table.clone
            pre_c = snap(cc)
            pre_o = snap(s.table)
            nev += 1
            try:
                tm._apply_impl(s.table, a)
            except Exception:
                pass
            if snap(cc) != pre_c:
                fail("op-on-original", "clone unchanged", "clone changed", "clone-follows-original", a=a)
            s = build()
            if cached:
                tm._apply_impl(s.table, ("read_all",))
            cc = s.table.clone
            pre_o = snap(s.table)
            try:
                tm._apply_impl(cc, a)
            except Exception:
                pass
            nev += 1
            if snap(s.table) != pre_o:
                fail("op-on-clone", "original unchanged", "original changed", "original-follows-clone", b=a)
            if not cached and snap(cc) != alone_c[repr(a)] and not (isinstance(alone_c[repr(a)], tuple) and alone_c[repr(a)][0] == "raises"):
                fail("op-on-clone", "clone == clone run alone", "differs", "nondeterministic-clone", b=a)

    # ---- |A| = |B| = 1 in both orders, on a sub-alphabet (pairs)
    sub = ops[:: max(1, len(ops) // (8 if TIER == "quick" else 20))]
    for a in sub:
        for b in sub:
            for order in ("ab", "ba"):
                s = build()
                o = s.table
                cc = o.clone
                nev += 1
                ra = rb = None
                try:
                    if order == "ab":
                        try:
                            tm._apply_impl(o, a)
                        except Exception as e:
                            ra = ("raises", type(e).__name__)
                        try:
                            tm._apply_impl(cc, b)
                        except Exception as e:
                            rb = ("raises", type(e).__name__)
                    else:
                        try:
                            tm._apply_impl(cc, b)
                        except Exception as e:
                            rb = ("raises", type(e).__name__)
                        try:
                            tm._apply_impl(o, a)
                        except Exception as e:
                            ra = ("raises", type(e).__name__)
                except Exception:
                    pass
                fo = ra or snap(o)
                fc = rb or snap(cc)
                if fo != alone_o[repr(a)]:
                    fail("interleaving", "original == original run alone", "differs", "original-depends-on-clone", a=a, b=b, order=order)
                if fc != alone_c[repr(b)]:
                    fail("interleaving", "clone == clone run alone", "differs", "clone-depends-on-original", a=a, b=b, order=order)
                pairs_seen.add((a[0], b[0], order))

    # ---- rows and cells of this table: clone of a live row / cell
    st = build()
    t = st.table
    for y in range(min(H, 4)):
        for getter in ("live", "copy"):
            s = build()
            t = s.table
            r = t.get_row(y, clone=(getter == "copy"))
            rc = r.clone
            nev += 1
            if rsnap(rc)[:2] != rsnap(r)[:2] or rc.y != r.y:
                fails.append({"signature": "site=Row.clone; class=birth; symptom=clone-differs-at-birth",
                              "replay": {"replay_module": "mc.checks.c10", "object": "row", "seed": seed, "history": [list(o) for o in hist], "y": y,
                                         "oracle": "birth", "expected": "equal", "actual": "differs"}})
            if rc._rmap is r._rmap or rc._tmap is r._tmap or rc._cmap is r._cmap or rc._indexes is r._indexes:
                fails.append({"signature": "site=Row.clone; class=birth; symptom=shared-map-object",
                              "replay": {"replay_module": "mc.checks.c10", "object": "row", "seed": seed, "history": [list(o) for o in hist], "y": y,
                                         "oracle": "identity", "expected": "own lists", "actual": "shared"}})
            rops = [("append_cell", 7, 1), ("append_cell", 7, 2), ("set_value", 0, 7), ("insert_cell", 0, 9, 2), ("delete_cell", 0),
                    ("set_cell", r.width, 8, 2), ("clear",), ("rstrip",), ("set_values", [7, 8, 9, 7, 8, 9, 7], 0)]
            for rop in rops:
                for target in ("clone", "orig"):
                    s = build()
                    t = s.table
                    r = t.get_row(y, clone=(getter == "copy"))
                    r.get_cell(0, clone=False)  # populate the row's cell cache
                    rc = r.clone
                    pre_t, pre_r, pre_c = snap(t), rsnap(r), rsnap(rc)
                    nev += 1
                    stt = type("S", (), {})()
                    try:
                        _apply_row(rc if target == "clone" else r, rop)
                    except Exception:
                        pass
                    if target == "clone":
                        if rsnap(r) != pre_r or snap(t) != pre_t:
                            fails.append({"signature": f"site=Row.clone; class=op-on-clone,{getter}; symptom=original-follows-clone",
                                          "replay": {"replay_module": "mc.checks.c10", "object": "row", "seed": seed, "history": [list(o) for o in hist], "y": y, "b": list(rop),
                                                     "oracle": "independence", "expected": "original row/table unchanged", "actual": "changed"}})
                    else:
                        if rsnap(rc) != pre_c:
                            fails.append({"signature": f"site=Row.clone; class=op-on-original,{getter}; symptom=clone-follows-original",
                                          "replay": {"replay_module": "mc.checks.c10", "object": "row", "seed": seed, "history": [list(o) for o in hist], "y": y, "a": list(rop),
                                                     "oracle": "independence", "expected": "clone unchanged", "actual": "changed"}})
    # cells
    for y in range(min(H, 3)):
        for x in range(min(W, 3)):
            for target in ("clone", "orig"):
                for mname in ("set_value", "style", "repeated", "clear"):
                    s = build()
                    t = s.table
                    cell = t.get_cell((x, y), clone=False)
                    cc = cell.clone
                    nev += 1
                    if esnap(cc) != esnap(cell) or (cc.x, cc.y) != (cell.x, cell.y):
                        fails.append({"signature": "site=Cell.clone; class=birth; symptom=clone-differs-at-birth",
                                      "replay": {"replay_module": "mc.checks.c10", "object": "cell", "seed": seed, "history": [list(o) for o in hist], "xy": [x, y],
                                                 "oracle": "birth", "expected": "equal", "actual": "differs"}})
                        continue
                    # no mutable structure (list / dict / set attribute) of the original or of its row / table is shared
                    owners = [cell, t] + list(t._indexes["_tmap"].values())
                    shared = [k for k, v in vars(cc).items() if isinstance(v, (list, dict, set))
                              and any(v is ov for o in owners for ov in vars(o).values())]
                    if shared:
                        fails.append({"signature": "site=Cell.clone; class=birth; symptom=shared-map-object",
                                      "replay": {"replay_module": "mc.checks.c10", "object": "cell", "seed": seed, "history": [list(o) for o in hist], "xy": [x, y],
                                                 "oracle": "identity", "expected": "own lists", "actual": shared}})
                        continue
                    pre_t, pre_cell, pre_cc = snap(t), esnap(cell), esnap(cc)
                    tgt = cc if target == "clone" else cell
                    try:
                        if mname == "set_value":
                            tgt.set_value(99)
                        elif mname == "style":
                            tgt.style = "zz"
                        elif mname == "repeated":
                            tgt._set_repeated(3)
                        else:
                            tgt.clear()
                    except Exception:
                        pass
                    if target == "clone" and (snap(t) != pre_t or esnap(cell) != pre_cell):
                        fails.append({"signature": "site=Cell.clone; class=op-on-clone; symptom=original-follows-clone",
                                      "replay": {"replay_module": "mc.checks.c10", "object": "cell", "seed": seed, "history": [list(o) for o in hist], "xy": [x, y], "b": mname,
                                                 "oracle": "independence", "expected": "original unchanged", "actual": "changed"}})
                    if target == "orig" and esnap(cc) != pre_cc:
                        fails.append({"signature": "site=Cell.clone; class=op-on-original; symptom=clone-follows-original",
                                      "replay": {"replay_module": "mc.checks.c10", "object": "cell", "seed": seed, "history": [list(o) for o in hist], "xy": [x, y], "a": mname,
                                                 "oracle": "independence", "expected": "clone unchanged", "actual": "changed"}})
    return (nev, fails, len(pairs_seen))


def safe_twins(task):
    """A crash inside the experiment is a finding about the implementation, not a broken check."""
    try:
        return table_twins(task)
    except Exception as ex:
        import traceback

        sidx, hist = task[0], task[1]
        return 1, [{"signature": f"site=table-twins; class=experiment; symptom=raises:{type(ex).__name__}",
                    "replay": {"replay_module": "mc.checks.c10", "object": "table", "seed": TM.seed_list[sidx], "history": [list(o) for o in hist],
                               "oracle": "raises", "expected": "no exception", "actual": traceback.format_exc()[-600:]}}], 0


def _apply_row(row, op):
    name = op[0]
    if name == "set_value":
        row.set_value(op[1], op[2])
    elif name == "set_cell":
        row.set_cell(op[1], Cell(op[2], repeated=op[3]))
    elif name == "insert_cell":
        row.insert_cell(op[1], Cell(op[2], repeated=op[3]))
    elif name == "append_cell":
        row.append_cell(Cell(op[1], repeated=op[2]))
    elif name == "delete_cell":
        row.delete_cell(op[1])
    elif name == "set_values":
        row.set_values(list(op[1]), start=op[2])
    elif name == "clear":
        row.clear()
    elif name == "rstrip":
        row.rstrip()
    else:
        raise AssertionError(name)


def table_states(tm, tier):
    out = [(i, ()) for i in tm.select_seeds("rep" if tier == "quick" else "xmlctor")]
    sub = tm.select_seeds("rep3" if tier == "quick" else "rep")
    for i in sub:
        st = tm.new(tm.seed_list[i])
        for op in tm.enabled(st, "mini"):
            out.append((i, (op,)))
    return out


def run(prop, tier, vseed):
    global TM, RM, TIER
    t0 = time.time()
    TIER = tier
    TM = tm = TableMachine()
    tasks = table_states(tm, tier)
    nproc = int(os.environ.get("VERIF_NPROC", "0")) or min(16, os.cpu_count() or 1)
    failures = []
    nev = 0
    npairs = 0
    with mp.get_context("fork").Pool(nproc) as pool:
        for a, fails, pairs in pool.imap(safe_twins, tasks, chunksize=2):
            nev += a
            failures.extend(fails)
            if len(failures) > 20000:
                failures = report.compact(failures)
            npairs = max(npairs, pairs)
        extra = {}
        try:
            from . import c10_docs

            dfails, dcov = c10_docs.run(tier, pool)
            failures.extend(dfails)
            nev += dcov.get("evaluations", 0)
            extra = dcov
        except ImportError:
            pass
    cov = {
        "states": len(tasks) + extra.get("states", 0),
        "transitions": nev,
        "traces_validated_against_impl": len(tasks) + extra.get("states", 0),
        "evaluations": nev,
        "distinct_nontrivial": npairs + extra.get("distinct_nontrivial", 0),
        "rule": "for every object state: clone, birth checks, then every single op on one twin (other twin must not change, with and without populated caches), then all (a on original, b on clone) pairs of a sub-alphabet in both orders against each twin run alone; distinct_nontrivial = distinct (op a, op b, order) interleavings exercised per state (max) + document/container experiments",
        "samples": [{"object": "table", "seed": tm.seed_list[tasks[-1][0]], "history": [list(o) for o in tasks[-1][1]], "a_on_original": ["set_value", 0, 0, 7], "b_on_clone": ["insert_column", 0, 2], "order": "ba"}],
        "exhaustive": True,
        "documents": extra,
    }
    assume = ["lxml, CPython trusted", "independence is observed through XML, position maps and cached wrappers of both twins"]
    return report.conclude(prop, tier, vseed, failures, cov, assume, t0)


def replay(rp):
    global TM
    if rp.get("object") in ("table", "row", "cell"):
        TM = tm = TableMachine()
        from ..replay import tup

        hist = tuple(tup(o) for o in rp["history"])
        idx = tm.seed_list.index(rp["seed"])
        nev, fails, _ = table_twins((idx, hist))
        hits = [f for f in fails if f["replay"]["oracle"] == rp["oracle"]]
        for f in hits[:5]:
            print("FAIL", f["signature"], f["replay"])
        return 1 if hits else 0
    from . import c10_docs

    return c10_docs.replay(rp)
